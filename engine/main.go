package main

import (
	"encoding/json"
	"flag"
	"fmt"
	"os"
	"path/filepath"
	"runtime"
	"sort"
	"strings"
	"time"

	"golang.org/x/tools/go/packages"
	"golang.org/x/tools/go/ssa"
	"golang.org/x/tools/go/ssa/ssautil"
)

type Job struct {
	Repo      string            `json:"repo"`
	Packages  []string          `json:"packages"`  // e.g. ["./db"]
	Overlays  map[string]string `json:"overlays"`  // virtual path -> real file
	Tags      string            `json:"tags"`
	Harnesses []HarnessCfg      `json:"harnesses"`
	Workers   int               `json:"workers"`
	Solver    string            `json:"solver"`
	Out       string            `json:"out"`
}

type JobResult struct {
	LoadS     float64         `json:"load_s"`
	Harnesses []HarnessResult `json:"harnesses"`
	Error     string          `json:"error,omitempty"`
}

func main() {
	jobPath := flag.String("job", "", "job json")
	flag.Parse()
	if *jobPath == "" {
		fmt.Fprintln(os.Stderr, "usage: gosym -job job.json")
		os.Exit(2)
	}
	data, err := os.ReadFile(*jobPath)
	if err != nil {
		fmt.Fprintln(os.Stderr, err)
		os.Exit(2)
	}
	var job Job
	if err := json.Unmarshal(data, &job); err != nil {
		fmt.Fprintln(os.Stderr, "bad job:", err)
		os.Exit(2)
	}
	if job.Workers == 0 {
		job.Workers = runtime.NumCPU()
	}
	if job.Solver == "" {
		job.Solver = "z3"
	}
	res := runJob(&job)
	out, _ := json.MarshalIndent(res, "", " ")
	if job.Out != "" {
		os.WriteFile(job.Out, out, 0644)
	} else {
		os.Stdout.Write(out)
	}
	if res.Error != "" {
		fmt.Fprintln(os.Stderr, "ERROR:", res.Error)
		os.Exit(2)
	}
}

func runJob(job *Job) *JobResult {
	res := &JobResult{}
	t0 := time.Now()
	overlay := map[string][]byte{}
	for virt, real := range job.Overlays {
		b, err := os.ReadFile(real)
		if err != nil {
			res.Error = err.Error()
			return res
		}
		overlay[virt] = b
	}
	cfg := &packages.Config{
		Mode:    packages.LoadAllSyntax,
		Dir:     job.Repo,
		Overlay: overlay,
		Env:     append(os.Environ(), "GOFLAGS=-mod=mod", "GOPROXY=off"),
	}
	if job.Tags != "" {
		cfg.BuildFlags = []string{"-tags=" + job.Tags}
	}
	pkgs, err := packages.Load(cfg, job.Packages...)
	if err != nil {
		res.Error = "load: " + err.Error()
		return res
	}
	nerr := 0
	packages.Visit(pkgs, nil, func(p *packages.Package) {
		for _, e := range p.Errors {
			if nerr < 20 {
				fmt.Fprintln(os.Stderr, "load error:", e)
			}
			nerr++
		}
	})
	if nerr > 0 {
		res.Error = fmt.Sprintf("%d package load errors", nerr)
		return res
	}
	prog, spkgs := ssautil.AllPackages(pkgs, ssa.InstantiateGenerics)
	for _, sp := range spkgs {
		if sp != nil {
			sp.Build()
		}
	}
	res.LoadS = time.Since(t0).Seconds()
	for _, hc := range job.Harnesses {
		var fn *ssa.Function
		for _, sp := range spkgs {
			if sp == nil {
				continue
			}
			if f := sp.Func(hc.Name); f != nil {
				fn = f
				break
			}
		}
		if fn == nil {
			hr := HarnessResult{Name: hc.Name, Ends: map[string]int{"config-error": 1}, EndMsgs: map[string]string{"config-error": "harness function not found"}}
			res.Harnesses = append(res.Harnesses, hr)
			continue
		}
		hr := runHarness(prog, fn, hc, job.Workers, job.Solver)
		// keep only functions of the repository (not the harness itself) in the evidence list
		for k := range hr.Funcs {
			if !strings.Contains(k, "couchbase/sync_gateway") || strings.Contains(k, "VHarness") || strings.Contains(k, ".v") && strings.Contains(filepath.Base(k), ".v") && isHarnessHelper(k) {
				delete(hr.Funcs, k)
			}
		}
		res.Harnesses = append(res.Harnesses, hr)
		fmt.Fprintf(os.Stderr, "%-40s paths=%d ends=%v obl=%d/%d viol=%d q=%d solver=%.1fs wall=%.1fs clean=%v\n",
			hc.Name, hr.Paths, hr.Ends, hr.Discharged, hr.Obligations, len(hr.Violations), hr.Queries, hr.SolverS, hr.WallS, hr.Clean)
		for k, v := range hr.EndMsgs {
			if k != "done" && k != "infeasible" && k != "assume" {
				fmt.Fprintf(os.Stderr, "    %s: %s\n", k, v)
			}
		}
	}
	if qstat {
		type kv struct {
			k string
			v int
		}
		var l []kv
		for k, v := range qstatMap {
			l = append(l, kv{k, v})
		}
		sort.Slice(l, func(i, j int) bool { return l[i].v > l[j].v })
		for i := 0; i < len(l) && i < 25; i++ {
			fmt.Fprintf(os.Stderr, "QSTAT %7d %s\n", l[i].v, l[i].k)
		}
	}
	return res
}

func isHarnessHelper(name string) bool {
	// harness-side helpers are named vh* / VStub* / vSpec* by convention
	i := strings.LastIndex(name, ".")
	base := name[i+1:]
	base = strings.TrimPrefix(base, "(")
	return strings.HasPrefix(base, "vh") || strings.HasPrefix(base, "VStub") || strings.HasPrefix(base, "vSpec") || strings.HasPrefix(base, "vstub")
}
