package main

// Term DAG with constant folding and SMT-LIB2 printing.
// Width 0 = Bool, otherwise (_ BitVec w) with w <= 64.

import (
	"fmt"
	"math/bits"
	"strings"
)

type Op uint8

const (
	OpConst Op = iota
	OpVar
	OpNot
	OpAnd
	OpOr
	OpEq
	OpIte
	OpAdd
	OpSub
	OpMul
	OpUDiv
	OpURem
	OpSDiv
	OpSRem
	OpBAnd
	OpBOr
	OpBXor
	OpBNot
	OpNeg
	OpShl
	OpLShr
	OpAShr
	OpULt
	OpULe
	OpSLt
	OpSLe
	OpZExt    // a = extra bits
	OpSExt    // a = extra bits
	OpExtract // a = hi, b = lo
	OpConcat
	OpUF  // uninterpreted function application: name, args; result width w
	OpNum // pseudo byte: decimal/hex numeral text of args[0]; a = base; b = style
)

type Term struct {
	op      Op
	w       int
	args    []*Term
	cval    uint64
	name    string
	a, b    int
	id      int
	defined bool // emitted to solver on current path
}

type termKey struct {
	op         Op
	w          int
	a0, a1, a2 int
	cval       uint64
	name       string
	a, b       int
}

// TermStore is per path (ids restart on every path so solver scopes stay simple).
type TermStore struct {
	tab    map[termKey]*Term
	nextID int
	nvars  int
	ufs    map[string]string // name -> declaration (emitted lazily)
	ub     map[int]uint64    // known upper bounds of variables (from path assumptions v < c / v <= c)
}

func NewTermStore() *TermStore {
	return &TermStore{tab: map[termKey]*Term{}, ufs: map[string]string{}, ub: map[int]uint64{}}
}

func mask(w int) uint64 {
	if w >= 64 {
		return ^uint64(0)
	}
	return (uint64(1) << uint(w)) - 1
}

func (ts *TermStore) mk(op Op, w int, args []*Term, cval uint64, name string, a, b int) *Term {
	k := termKey{op: op, w: w, cval: cval, name: name, a: a, b: b, a0: -1, a1: -1, a2: -1}
	if len(args) > 0 {
		k.a0 = args[0].id
	}
	if len(args) > 1 {
		k.a1 = args[1].id
	}
	if len(args) > 2 {
		k.a2 = args[2].id
	}
	if len(args) <= 3 {
		if t, ok := ts.tab[k]; ok {
			return t
		}
	}
	t := &Term{op: op, w: w, args: args, cval: cval, name: name, a: a, b: b, id: ts.nextID}
	ts.nextID++
	if len(args) <= 3 {
		ts.tab[k] = t
	}
	return t
}

func (t *Term) IsConst() bool { return t.op == OpConst }
func (t *Term) IsTrue() bool  { return t.op == OpConst && t.w == 0 && t.cval == 1 }
func (t *Term) IsFalse() bool { return t.op == OpConst && t.w == 0 && t.cval == 0 }

func (ts *TermStore) BV(v uint64, w int) *Term {
	return ts.mk(OpConst, w, nil, v&mask(w), "", 0, 0)
}
func (ts *TermStore) Bool(b bool) *Term {
	if b {
		return ts.mk(OpConst, 0, nil, 1, "", 0, 0)
	}
	return ts.mk(OpConst, 0, nil, 0, "", 0, 0)
}
func (ts *TermStore) Var(w int, hint string) *Term {
	ts.nvars++
	name := fmt.Sprintf("v%d_%s", ts.nvars, sanitize(hint))
	return ts.mk(OpVar, w, nil, 0, name, 0, 0)
}

func sanitize(s string) string {
	var b strings.Builder
	for _, r := range s {
		if (r >= 'a' && r <= 'z') || (r >= 'A' && r <= 'Z') || (r >= '0' && r <= '9') || r == '_' {
			b.WriteRune(r)
		}
	}
	return b.String()
}

func sext(v uint64, w int) int64 {
	if w >= 64 {
		return int64(v)
	}
	sh := uint(64 - w)
	return int64(v<<sh) >> sh
}

func (ts *TermStore) Not(x *Term) *Term {
	if x.IsConst() {
		return ts.Bool(x.cval == 0)
	}
	if x.op == OpNot {
		return x.args[0]
	}
	return ts.mk(OpNot, 0, []*Term{x}, 0, "", 0, 0)
}
func (ts *TermStore) And(x, y *Term) *Term {
	if x.IsFalse() || y.IsFalse() {
		return ts.Bool(false)
	}
	if x.IsTrue() {
		return y
	}
	if y.IsTrue() {
		return x
	}
	if x == y {
		return x
	}
	return ts.mk(OpAnd, 0, []*Term{x, y}, 0, "", 0, 0)
}
func (ts *TermStore) Or(x, y *Term) *Term {
	if x.IsTrue() || y.IsTrue() {
		return ts.Bool(true)
	}
	if x.IsFalse() {
		return y
	}
	if y.IsFalse() {
		return x
	}
	if x == y {
		return x
	}
	return ts.mk(OpOr, 0, []*Term{x, y}, 0, "", 0, 0)
}
func (ts *TermStore) AndN(xs ...*Term) *Term {
	r := ts.Bool(true)
	for _, x := range xs {
		r = ts.And(r, x)
	}
	return r
}
func (ts *TermStore) OrN(xs ...*Term) *Term {
	r := ts.Bool(false)
	for _, x := range xs {
		r = ts.Or(r, x)
	}
	return r
}
func (ts *TermStore) Implies(x, y *Term) *Term { return ts.Or(ts.Not(x), y) }

func (ts *TermStore) Eq(x, y *Term) *Term {
	if x.w != y.w {
		panic(fmt.Sprintf("Eq width mismatch %d vs %d", x.w, y.w))
	}
	if x == y {
		return ts.Bool(true)
	}
	if x.IsConst() && y.IsConst() {
		return ts.Bool(x.cval == y.cval)
	}
	if x.w == 0 {
		if x.IsConst() {
			if x.cval == 1 {
				return y
			}
			return ts.Not(y)
		}
		if y.IsConst() {
			if y.cval == 1 {
				return x
			}
			return ts.Not(x)
		}
	}
	if x.op == OpNum || y.op == OpNum {
		panic(unsupported("Eq on Num pseudo-byte"))
	}
	if x.w > 0 && (isLinOp(x) || isLinOp(y)) {
		l := ts.toLin(x, 0)
		r := ts.toLin(y, 0)
		if l != nil && r != nil {
			l.addScaled(r, mask(x.w))
			// split into positive and negative parts
			pos := &lin{w: x.w, coef: map[int]uint64{}, atom: map[int]*Term{}}
			neg := &lin{w: x.w, coef: map[int]uint64{}, atom: map[int]*Term{}}
			for id, c := range l.coef {
				if c == 0 {
					continue
				}
				if c > mask(x.w)/2 {
					neg.coef[id] = (-c) & mask(x.w)
					neg.atom[id] = l.atom[id]
				} else {
					pos.coef[id] = c
					pos.atom[id] = l.atom[id]
				}
			}
			neg.c = (-l.c) & mask(x.w)
			if len(pos.coef) == 0 && len(neg.coef) == 0 {
				return ts.Bool(neg.c == 0)
			}
			x, y = ts.fromLin(pos), ts.fromLin(neg)
			if x == y {
				return ts.Bool(true)
			}
			if x.IsConst() && y.IsConst() {
				return ts.Bool(x.cval == y.cval)
			}
		}
	}
	if x.id > y.id {
		x, y = y, x
	}
	return ts.mk(OpEq, 0, []*Term{x, y}, 0, "", 0, 0)
}
func (ts *TermStore) Ite(c, x, y *Term) *Term {
	if c.IsConst() {
		if c.cval == 1 {
			return x
		}
		return y
	}
	if x == y {
		return x
	}
	if x.w != y.w {
		panic("Ite width mismatch")
	}
	if x.w == 0 && x.IsConst() && y.IsConst() {
		if x.cval == 1 {
			return c
		}
		return ts.Not(c)
	}
	if x.w == 0 {
		switch {
		case y.IsFalse():
			return ts.And(c, x)
		case x.IsTrue():
			return ts.Or(c, y)
		case x.IsFalse():
			return ts.And(ts.Not(c), y)
		case y.IsTrue():
			return ts.Or(ts.Not(c), x)
		}
	}
	return ts.mk(OpIte, x.w, []*Term{c, x, y}, 0, "", 0, 0)
}

func (ts *TermStore) bin(op Op, x, y *Term) *Term {
	if x.w != y.w {
		panic(fmt.Sprintf("bin op %d width mismatch %d vs %d", op, x.w, y.w))
	}
	w := x.w
	if x.op == OpNum || y.op == OpNum {
		panic(unsupported("arithmetic on Num pseudo-byte"))
	}
	if x.IsConst() && y.IsConst() {
		a, b := x.cval, y.cval
		m := mask(w)
		switch op {
		case OpAdd:
			return ts.BV(a+b, w)
		case OpSub:
			return ts.BV(a-b, w)
		case OpMul:
			return ts.BV(a*b, w)
		case OpUDiv:
			if b == 0 {
				return ts.BV(m, w)
			}
			return ts.BV(a/b, w)
		case OpURem:
			if b == 0 {
				return ts.BV(a, w)
			}
			return ts.BV(a%b, w)
		case OpSDiv:
			if b == 0 {
				break
			}
			sa, sb := sext(a, w), sext(b, w)
			if sb == -1 {
				return ts.BV(uint64(-sa), w)
			}
			return ts.BV(uint64(sa/sb), w)
		case OpSRem:
			if b == 0 {
				break
			}
			sa, sb := sext(a, w), sext(b, w)
			if sb == -1 {
				return ts.BV(0, w)
			}
			return ts.BV(uint64(sa%sb), w)
		case OpBAnd:
			return ts.BV(a&b, w)
		case OpBOr:
			return ts.BV(a|b, w)
		case OpBXor:
			return ts.BV(a^b, w)
		case OpShl:
			if b >= uint64(w) {
				return ts.BV(0, w)
			}
			return ts.BV(a<<b, w)
		case OpLShr:
			if b >= uint64(w) {
				return ts.BV(0, w)
			}
			return ts.BV(a>>b, w)
		case OpAShr:
			sa := sext(a, w)
			if b >= uint64(w) {
				b = uint64(w - 1)
			}
			return ts.BV(uint64(sa>>b), w)
		case OpULt:
			return ts.Bool(a < b)
		case OpULe:
			return ts.Bool(a <= b)
		case OpSLt:
			return ts.Bool(sext(a, w) < sext(b, w))
		case OpSLe:
			return ts.Bool(sext(a, w) <= sext(b, w))
		}
	}
	if (op == OpAdd || op == OpSub) && w > 0 {
		l := ts.toLin(x, 0)
		r := ts.toLin(y, 0)
		if l != nil && r != nil {
			if op == OpAdd {
				l.addScaled(r, 1)
			} else {
				l.addScaled(r, mask(w))
			}
			return ts.fromLin(l)
		}
	}
	rw := w
	switch op {
	case OpULt, OpULe, OpSLt, OpSLe:
		rw = 0
		if x == y {
			return ts.Bool(op == OpULe || op == OpSLe)
		}
		// v+a vs v+b where v is known (by a path assumption) to be small enough that neither side wraps
		if (op == OpULt || op == OpULe) && w == 64 {
			if r, ok := ts.cmpSameBase(op, x, y); ok {
				return ts.Bool(r)
			}
		}
		// zero-extended narrow value against a large constant
		if (op == OpULt || op == OpULe) && x.op == OpZExt && y.IsConst() && x.args[0].w < 64 {
			lim := uint64(1) << uint(x.args[0].w)
			if (op == OpULt && y.cval >= lim) || (op == OpULe && y.cval >= lim-1) {
				return ts.Bool(true)
			}
		}
		if (op == OpULt || op == OpULe) && y.op == OpZExt && x.IsConst() && y.args[0].w < 64 {
			lim := uint64(1) << uint(y.args[0].w)
			if (op == OpULt && x.cval >= lim-1) || (op == OpULe && x.cval >= lim) {
				return ts.Bool(false)
			}
		}
	case OpAdd:
		if x.IsConst() && x.cval == 0 {
			return y
		}
		if y.IsConst() && y.cval == 0 {
			return x
		}
	case OpSub:
		if y.IsConst() && y.cval == 0 {
			return x
		}
		if x == y {
			return ts.BV(0, w)
		}
	case OpBAnd:
		if x == y {
			return x
		}
		if (x.IsConst() && x.cval == 0) || (y.IsConst() && y.cval == 0) {
			return ts.BV(0, w)
		}
	case OpBOr:
		if x == y {
			return x
		}
		if x.IsConst() && x.cval == 0 {
			return y
		}
		if y.IsConst() && y.cval == 0 {
			return x
		}
	case OpMul:
		if x.IsConst() && x.cval == 1 {
			return y
		}
		if y.IsConst() && y.cval == 1 {
			return x
		}
	case OpShl, OpLShr, OpAShr:
		if y.IsConst() && y.cval == 0 {
			return x
		}
	}
	return ts.mk(op, rw, []*Term{x, y}, 0, "", 0, 0)
}

func (ts *TermStore) Add(x, y *Term) *Term  { return ts.bin(OpAdd, x, y) }
func (ts *TermStore) Sub(x, y *Term) *Term  { return ts.bin(OpSub, x, y) }
func (ts *TermStore) Mul(x, y *Term) *Term  { return ts.bin(OpMul, x, y) }
func (ts *TermStore) ULt(x, y *Term) *Term  { return ts.bin(OpULt, x, y) }
func (ts *TermStore) ULe(x, y *Term) *Term  { return ts.bin(OpULe, x, y) }
func (ts *TermStore) SLt(x, y *Term) *Term  { return ts.bin(OpSLt, x, y) }
func (ts *TermStore) SLe(x, y *Term) *Term  { return ts.bin(OpSLe, x, y) }
func (ts *TermStore) BAnd(x, y *Term) *Term { return ts.bin(OpBAnd, x, y) }

func (ts *TermStore) BNot(x *Term) *Term {
	if x.IsConst() {
		return ts.BV(^x.cval, x.w)
	}
	return ts.mk(OpBNot, x.w, []*Term{x}, 0, "", 0, 0)
}
func (ts *TermStore) Neg(x *Term) *Term {
	if x.IsConst() {
		return ts.BV(-x.cval, x.w)
	}
	if l := ts.toLin(x, 0); l != nil {
		z := &lin{w: x.w, coef: map[int]uint64{}, atom: map[int]*Term{}}
		z.addScaled(l, mask(x.w))
		return ts.fromLin(z)
	}
	return ts.mk(OpNeg, x.w, []*Term{x}, 0, "", 0, 0)
}
func (ts *TermStore) ZExt(x *Term, to int) *Term {
	if to == x.w {
		return x
	}
	if x.op == OpNum {
		panic(unsupported("ZExt on Num pseudo-byte"))
	}
	if x.IsConst() {
		return ts.BV(x.cval, to)
	}
	return ts.mk(OpZExt, to, []*Term{x}, 0, "", to-x.w, 0)
}
func (ts *TermStore) SExt(x *Term, to int) *Term {
	if to == x.w {
		return x
	}
	if x.op == OpNum {
		panic(unsupported("SExt on Num pseudo-byte"))
	}
	if x.IsConst() {
		return ts.BV(uint64(sext(x.cval, x.w)), to)
	}
	return ts.mk(OpSExt, to, []*Term{x}, 0, "", to-x.w, 0)
}
func (ts *TermStore) Extract(x *Term, hi, lo int) *Term {
	w := hi - lo + 1
	if w == x.w {
		return x
	}
	if x.op == OpNum {
		panic(unsupported("Extract on Num pseudo-byte"))
	}
	if x.IsConst() {
		return ts.BV(x.cval>>uint(lo), w)
	}
	if (x.op == OpZExt || x.op == OpSExt) && lo == 0 && w <= x.args[0].w {
		return ts.Extract(x.args[0], hi, 0)
	}
	return ts.mk(OpExtract, w, []*Term{x}, 0, "", hi, lo)
}
func (ts *TermStore) Concat(hi, lo *Term) *Term {
	if hi.IsConst() && lo.IsConst() {
		return ts.BV(hi.cval<<uint(lo.w)|lo.cval, hi.w+lo.w)
	}
	return ts.mk(OpConcat, hi.w+lo.w, []*Term{hi, lo}, 0, "", 0, 0)
}

// UF applies an uninterpreted function (declared lazily by the solver layer).
func (ts *TermStore) UF(name string, w int, args ...*Term) *Term {
	var sb strings.Builder
	sb.WriteString("(declare-fun " + name + " (")
	for i, a := range args {
		if i > 0 {
			sb.WriteByte(' ')
		}
		sb.WriteString(sortStr(a.w))
	}
	sb.WriteString(") " + sortStr(w) + ")")
	ts.ufs[name] = sb.String()
	if len(args) > 3 {
		// not hash-consed beyond 3 args; fine
	}
	return ts.mk(OpUF, w, args, 0, name, 0, 0)
}

func (ts *TermStore) Num(v *Term, base int) *Term {
	return ts.mk(OpNum, 8, []*Term{v}, 0, "", base, 0)
}

func sortStr(w int) string {
	if w == 0 {
		return "Bool"
	}
	return fmt.Sprintf("(_ BitVec %d)", w)
}

func constStr(t *Term) string {
	if t.w == 0 {
		if t.cval == 1 {
			return "true"
		}
		return "false"
	}
	if t.w%4 == 0 {
		return fmt.Sprintf("#x%0*x", t.w/4, t.cval)
	}
	return fmt.Sprintf("#b%0*b", t.w, t.cval)
}

var opNames = map[Op]string{
	OpNot: "not", OpAnd: "and", OpOr: "or", OpEq: "=", OpIte: "ite",
	OpAdd: "bvadd", OpSub: "bvsub", OpMul: "bvmul", OpUDiv: "bvudiv", OpURem: "bvurem",
	OpSDiv: "bvsdiv", OpSRem: "bvsrem", OpBAnd: "bvand", OpBOr: "bvor", OpBXor: "bvxor",
	OpBNot: "bvnot", OpNeg: "bvneg", OpShl: "bvshl", OpLShr: "bvlshr", OpAShr: "bvashr",
	OpULt: "bvult", OpULe: "bvule", OpSLt: "bvslt", OpSLe: "bvsle", OpConcat: "concat",
}

// ref returns the SMT name by which the term is referred to once defined.
func (t *Term) ref() string {
	switch t.op {
	case OpConst:
		return constStr(t)
	case OpVar:
		return t.name
	}
	return fmt.Sprintf("t%d", t.id)
}

// body returns the SMT definition body (children by reference).
func (t *Term) body() string {
	var sb strings.Builder
	switch t.op {
	case OpZExt:
		fmt.Fprintf(&sb, "((_ zero_extend %d) %s)", t.a, t.args[0].ref())
	case OpSExt:
		fmt.Fprintf(&sb, "((_ sign_extend %d) %s)", t.a, t.args[0].ref())
	case OpExtract:
		fmt.Fprintf(&sb, "((_ extract %d %d) %s)", t.a, t.b, t.args[0].ref())
	case OpUF:
		if len(t.args) == 0 {
			return t.name
		}
		sb.WriteString("(" + t.name)
		for _, a := range t.args {
			sb.WriteString(" " + a.ref())
		}
		sb.WriteString(")")
	case OpNum:
		panic(unsupported("Num pseudo-byte reached the solver"))
	default:
		sb.WriteString("(" + opNames[t.op])
		for _, a := range t.args {
			sb.WriteString(" " + a.ref())
		}
		sb.WriteString(")")
	}
	return sb.String()
}

func (t *Term) String() string {
	switch t.op {
	case OpConst:
		if t.w == 0 {
			return constStr(t)
		}
		return fmt.Sprintf("%d", t.cval)
	case OpVar:
		return t.name
	case OpNum:
		return "Num(" + t.args[0].String() + ")"
	}
	var sb strings.Builder
	sb.WriteString("(" + opNames[t.op])
	if t.op == OpUF {
		sb.WriteString(t.name)
	}
	for _, a := range t.args {
		sb.WriteString(" " + a.String())
	}
	sb.WriteString(")")
	s := sb.String()
	if len(s) > 200 {
		return s[:200] + "..."
	}
	return s
}

var _ = bits.Len

// ---------------------------------------------------------------- linear normal form (mod 2^w)

type lin struct {
	w    int
	coef map[int]uint64
	atom map[int]*Term
	c    uint64
}

func isLinOp(t *Term) bool {
	return t.op == OpAdd || t.op == OpSub || t.op == OpNeg || (t.op == OpMul && (t.args[0].IsConst() || t.args[1].IsConst()))
}

func (l *lin) addScaled(r *lin, k uint64) {
	m := mask(l.w)
	for id, c := range r.coef {
		l.coef[id] = (l.coef[id] + c*k) & m
		l.atom[id] = r.atom[id]
	}
	l.c = (l.c + r.c*k) & m
}

func (ts *TermStore) toLin(t *Term, depth int) *lin {
	if depth > 200 || t.op == OpNum {
		return nil
	}
	l := &lin{w: t.w, coef: map[int]uint64{}, atom: map[int]*Term{}}
	switch t.op {
	case OpConst:
		l.c = t.cval
	case OpAdd, OpSub:
		a := ts.toLin(t.args[0], depth+1)
		b := ts.toLin(t.args[1], depth+1)
		if a == nil || b == nil {
			return nil
		}
		l = a
		if t.op == OpAdd {
			l.addScaled(b, 1)
		} else {
			l.addScaled(b, mask(t.w))
		}
	case OpNeg:
		a := ts.toLin(t.args[0], depth+1)
		if a == nil {
			return nil
		}
		l.addScaled(a, mask(t.w))
	case OpMul:
		var k *Term
		var o *Term
		if t.args[0].IsConst() {
			k, o = t.args[0], t.args[1]
		} else if t.args[1].IsConst() {
			k, o = t.args[1], t.args[0]
		}
		if k == nil {
			l.coef[t.id] = 1
			l.atom[t.id] = t
			break
		}
		a := ts.toLin(o, depth+1)
		if a == nil {
			return nil
		}
		l.addScaled(a, k.cval)
	default:
		l.coef[t.id] = 1
		l.atom[t.id] = t
	}
	return l
}

func (ts *TermStore) fromLin(l *lin) *Term {
	ids := make([]int, 0, len(l.coef))
	for id, c := range l.coef {
		if c != 0 {
			ids = append(ids, id)
		}
	}
	// insertion sort (small)
	for i := 1; i < len(ids); i++ {
		for j := i; j > 0 && ids[j] < ids[j-1]; j-- {
			ids[j], ids[j-1] = ids[j-1], ids[j]
		}
	}
	w := l.w
	m := mask(w)
	var acc *Term
	var negs []*Term
	for _, id := range ids {
		c := l.coef[id]
		a := l.atom[id]
		switch {
		case c == 1:
			if acc == nil {
				acc = a
			} else {
				acc = ts.mk(OpAdd, w, []*Term{acc, a}, 0, "", 0, 0)
			}
		case c == m:
			negs = append(negs, a)
		default:
			p := ts.mk(OpMul, w, []*Term{ts.BV(c, w), a}, 0, "", 0, 0)
			if acc == nil {
				acc = p
			} else {
				acc = ts.mk(OpAdd, w, []*Term{acc, p}, 0, "", 0, 0)
			}
		}
	}
	if acc == nil {
		acc = ts.BV(l.c, w)
	} else if l.c != 0 {
		acc = ts.mk(OpAdd, w, []*Term{acc, ts.BV(l.c, w)}, 0, "", 0, 0)
	}
	for _, n := range negs {
		if acc.IsConst() && acc.cval == 0 {
			acc = ts.mk(OpNeg, w, []*Term{n}, 0, "", 0, 0)
		} else {
			acc = ts.mk(OpSub, w, []*Term{acc, n}, 0, "", 0, 0)
		}
	}
	return acc
}

// NoteAssumed records bounds implied by an assumed condition (only v < c and v <= c on plain variables).
func (ts *TermStore) NoteAssumed(c *Term) {
	switch c.op {
	case OpAnd:
		ts.NoteAssumed(c.args[0])
		ts.NoteAssumed(c.args[1])
	case OpULt, OpULe:
		v, k := c.args[0], c.args[1]
		if v.op == OpVar && k.IsConst() {
			b := k.cval
			if c.op == OpULt {
				if b == 0 {
					return
				}
				b--
			}
			if old, ok := ts.ub[v.id]; !ok || b < old {
				ts.ub[v.id] = b
			}
		}
	case OpNot:
		// not (c < v)  ==  v <= c
		if in := c.args[0]; in.op == OpULt && in.args[0].IsConst() && in.args[1].op == OpVar {
			if old, ok := ts.ub[in.args[1].id]; !ok || in.args[0].cval < old {
				ts.ub[in.args[1].id] = in.args[0].cval
			}
		}
	}
}

// cmpSameBase decides v+a < v+b (or <=) when both sides are the same variable plus constants and the
// variable's known upper bound rules out wrap-around.
func (ts *TermStore) cmpSameBase(op Op, x, y *Term) (bool, bool) {
	lx, ly := ts.toLin(x, 0), ts.toLin(y, 0)
	if lx == nil || ly == nil {
		return false, false
	}
	one := func(l *lin) (int, bool) {
		id := -1
		for k, c := range l.coef {
			if c == 0 {
				continue
			}
			if c != 1 || id != -1 {
				return -1, false
			}
			id = k
		}
		return id, id != -1
	}
	ix, okx := one(lx)
	iy, oky := one(ly)
	if !okx || !oky || ix != iy {
		return false, false
	}
	v := lx.atom[ix]
	if v.op != OpVar {
		return false, false
	}
	ub, ok := ts.ub[v.id]
	if !ok {
		return false, false
	}
	a, b := lx.c, ly.c
	const lim = uint64(1) << 62
	if ub >= lim || a >= lim || b >= lim {
		return false, false
	}
	if op == OpULt {
		return a < b, true
	}
	return a <= b, true
}
