package main

import (
	"fmt"
	"go/types"
	"strings"

	"golang.org/x/tools/go/ssa"
)

func (it *Interp) builtin(fr *frame, b *ssa.Builtin, c *ssa.CallCommon, args []Value) Value {
	ts := it.ts
	switch b.Name() {
	case "len":
		switch x := args[0].(type) {
		case *StrV:
			return it.strLenTerm(x)
		case *SliceV:
			if x.len > 0 {
				for _, e := range x.cell.v.(*ArrayV).e[x.off : x.off+x.len] {
					if t, ok := e.(*Term); ok && t.op == OpNum {
						panic(unsupported("len of byte slice holding an opaque numeral"))
					}
				}
			}
			return ts.BV(uint64(x.len), 64)
		case *MapV:
			if x.m == nil {
				return ts.BV(0, 64)
			}
			return ts.BV(uint64(len(x.m.entries)), 64)
		case *ChanV:
			if x.ch == nil {
				return ts.BV(0, 64)
			}
			return ts.BV(uint64(len(x.ch.buf)), 64)
		case *Ptr: // *array
			return ts.BV(uint64(under(c.Args[0].Type().(*types.Pointer).Elem()).(*types.Array).Len()), 64)
		case *ArrayV:
			return ts.BV(uint64(len(x.e)), 64)
		}
	case "cap":
		switch x := args[0].(type) {
		case *SliceV:
			return ts.BV(uint64(x.cap), 64)
		case *ChanV:
			if x.ch == nil {
				return ts.BV(0, 64)
			}
			return ts.BV(uint64(x.ch.cap), 64)
		case *ArrayV:
			return ts.BV(uint64(len(x.e)), 64)
		case *Ptr:
			return ts.BV(uint64(under(c.Args[0].Type().(*types.Pointer).Elem()).(*types.Array).Len()), 64)
		}
	case "append":
		s := args[0].(*SliceV)
		var add []Value
		switch y := args[1].(type) {
		case *SliceV:
			add = it.sliceVals(y)
		case *StrV:
			for _, t := range y.bytes(ts) {
				add = append(add, t)
			}
		}
		return it.appendVals(s, add, c.Args[0].Type())
	case "copy":
		dst := args[0].(*SliceV)
		var src []Value
		switch y := args[1].(type) {
		case *SliceV:
			src = it.sliceVals(y)
		case *StrV:
			for _, t := range y.bytes(ts) {
				src = append(src, t)
			}
		}
		n := len(src)
		if dst.len < n {
			n = dst.len
		}
		if n > 0 {
			arr := dst.cell.v.(*ArrayV)
			e := make([]Value, len(arr.e))
			copy(e, arr.e)
			copy(e[dst.off:dst.off+n], src[:n])
			dst.cell.v = &ArrayV{e}
		}
		return ts.BV(uint64(n), 64)
	case "delete":
		m := args[0].(*MapV)
		it.mapDelete(m, args[1], under(c.Args[0].Type()).(*types.Map))
		return nil
	case "clear":
		switch x := args[0].(type) {
		case *MapV:
			if x.m != nil {
				x.m.entries = nil
			}
		case *SliceV:
			if x.len > 0 {
				et := under(c.Args[0].Type()).(*types.Slice).Elem()
				arr := x.cell.v.(*ArrayV)
				e := make([]Value, len(arr.e))
				copy(e, arr.e)
				z := it.zero(et)
				for i := 0; i < x.len; i++ {
					e[x.off+i] = z
				}
				x.cell.v = &ArrayV{e}
			}
		}
		return nil
	case "close":
		ch := args[0].(*ChanV)
		if ch.ch == nil {
			it.goPanicf("close of nil channel")
		}
		if ch.ch.closed {
			it.goPanicf("close of closed channel")
		}
		ch.ch.closed = true
		return nil
	case "min", "max":
		t := c.Args[0].Type()
		acc := args[0]
		for _, a := range args[1:] {
			switch x := acc.(type) {
			case *Term:
				_, signed, _ := intInfo(t)
				var lt *Term
				if signed {
					lt = ts.SLt(a.(*Term), x)
				} else {
					lt = ts.ULt(a.(*Term), x)
				}
				if b.Name() == "max" {
					lt = ts.Not(lt)
					// max: pick a if a > x  (a>=x fine)
				}
				acc = ts.Ite(lt, a.(*Term), x)
			case FloatV:
				y := a.(FloatV)
				if (b.Name() == "min" && y.f < x.f) || (b.Name() == "max" && y.f > x.f) {
					acc = y
				}
			default:
				panic(unsupported("min/max on " + fmt.Sprintf("%T", acc)))
			}
		}
		return acc
	case "print", "println":
		return nil
	case "recover":
		// recover applies to the panicking frame that is running defers: the caller chain's nearest panicking frame
		for f := fr.caller; f != nil; f = f.caller {
			if f.panicking != nil {
				gp := f.panicking
				f.panicking = nil
				return gp.val
			}
			break
		}
		return &IfaceV{}
	case "String": // unsafe.String(ptr, len)
		p := args[0].(*Ptr)
		n := int(it.concInt(args[1].(*Term)))
		if n == 0 {
			return concStr("")
		}
		if p.isNil() || len(p.path) != 1 {
			panic(unsupported("unsafe.String on unusual pointer"))
		}
		arr := p.cell.v.(*ArrayV)
		bs := make([]*Term, n)
		for i := 0; i < n; i++ {
			bs[i] = arr.e[p.path[0]+i].(*Term)
		}
		return strFromBytes(bs)
	case "StringData":
		s := args[0].(*StrV)
		if s.Len() == 0 {
			return nilPtr()
		}
		bs := s.bytes(ts)
		arr := make([]Value, len(bs))
		for i, b := range bs {
			arr[i] = b
		}
		return &Ptr{cell: it.newCell(&ArrayV{arr}, nil, "stringdata"), path: []int{0}}
	case "SliceData":
		s := args[0].(*SliceV)
		if s.cell == nil {
			return nilPtr()
		}
		return &Ptr{cell: s.cell, path: []int{s.off}}
	case "Slice": // unsafe.Slice(ptr, len)
		p := args[0].(*Ptr)
		n := int(it.concInt(args[1].(*Term)))
		if p.isNil() {
			return &SliceV{}
		}
		if len(p.path) != 1 {
			panic(unsupported("unsafe.Slice on unusual pointer"))
		}
		return &SliceV{cell: p.cell, off: p.path[0], len: n, cap: n}
	case "ssa:wrapnilchk":
		p := args[0].(*Ptr)
		if p.isNil() {
			it.goPanicf("value method called using nil pointer")
		}
		return p
	}
	panic(unsupported("builtin " + b.Name()))
}

func (it *Interp) appendVals(s *SliceV, add []Value, st types.Type) *SliceV {
	n := len(add)
	if n == 0 {
		if s.cell == nil {
			return &SliceV{}
		}
		return s
	}
	if s.cell != nil && s.len+n <= s.cap {
		arr := s.cell.v.(*ArrayV)
		e := make([]Value, len(arr.e))
		copy(e, arr.e)
		copy(e[s.off+s.len:], add)
		s.cell.v = &ArrayV{e}
		return &SliceV{cell: s.cell, off: s.off, len: s.len + n, cap: s.cap}
	}
	newLen := s.len + n
	newCap := s.cap * 2
	if newLen > newCap {
		newCap = newLen
	} else if s.cap >= 256 {
		newCap = s.cap + (s.cap+768)/4
		if newCap < newLen {
			newCap = newLen
		}
	}
	e := make([]Value, newCap)
	if s.len > 0 {
		copy(e, s.cell.v.(*ArrayV).e[s.off:s.off+s.len])
	}
	copy(e[s.len:], add)
	if newCap > newLen {
		z := it.zero(under(st).(*types.Slice).Elem())
		for i := newLen; i < newCap; i++ {
			e[i] = z
		}
	}
	return &SliceV{cell: it.newCell(&ArrayV{e}, nil, "append"), len: newLen, cap: newCap}
}

// ---------------------------------------------------------------- harness intrinsics

func isIntrinsicName(n string) bool {
	return strings.HasPrefix(n, "vNondet") || n == "vAssume" || n == "vAssert" || n == "vCover" ||
		n == "vMapOrder" || n == "vFail" || n == "vNum" || n == "vParam" || n == "vHexLE" ||
		n == "vUF1" || n == "vUF2" || n == "vUFStr" || n == "vExpectPanicNext" || n == "vTrace" || n == "vIsConcrete" || n == "vLockHeld"
}

func (it *Interp) newNondet(kind string, w int, hint string) *Term {
	v := it.ts.Var(w, hint)
	it.nondets = append(it.nondets, &nondetRec{Kind: kind, W: w, term: v})
	return v
}

func (it *Interp) intrinsic(fn *ssa.Function, args []Value) Value {
	ts := it.ts
	switch fn.Name() {
	case "vNondetU64", "vNondetUint64":
		return it.newNondet("u64", 64, "u64")
	case "vNondetInt", "vNondetI64":
		return it.newNondet("i64", 64, "i64")
	case "vNondetU32":
		return it.newNondet("u32", 32, "u32")
	case "vNondetU16":
		return it.newNondet("u16", 16, "u16")
	case "vNondetU8":
		return it.newNondet("u8", 8, "u8")
	case "vNondetBool":
		return it.newNondet("bool", 0, "b")
	case "vNondetRange":
		lo := int64(it.concInt(args[0].(*Term)))
		hi := int64(it.concInt(args[1].(*Term)))
		if hi < lo {
			panic(&pathEnd{"infeasible", "empty vNondetRange"})
		}
		k := it.freeChoice(int(hi - lo + 1))
		v := ts.BV(uint64(lo+int64(k)), 64)
		it.nondets = append(it.nondets, &nondetRec{Kind: "range", W: 64, term: v})
		return v
	case "vNondetBytes":
		n := int(it.concInt(args[0].(*Term)))
		rec := &nondetRec{Kind: "bytes", W: 8, N: n}
		arr := make([]Value, n)
		for i := 0; i < n; i++ {
			b := ts.Var(8, "byte")
			rec.vals = append(rec.vals, b)
			arr[i] = b
		}
		it.nondets = append(it.nondets, rec)
		return &SliceV{cell: it.newCell(&ArrayV{arr}, nil, "nondetbytes"), len: n, cap: n}
	case "vNondetString":
		n := int(it.concInt(args[0].(*Term)))
		rec := &nondetRec{Kind: "string", W: 8, N: n}
		bs := make([]*Term, n)
		for i := 0; i < n; i++ {
			bs[i] = ts.Var(8, "ch")
			rec.vals = append(rec.vals, bs[i])
		}
		it.nondets = append(it.nondets, rec)
		if n == 0 {
			return concStr("")
		}
		return &StrV{b: bs}
	case "vAssume":
		c := args[0].(*Term)
		if c.IsTrue() {
			return nil
		}
		if c.IsFalse() {
			panic(&pathEnd{"assume", "assumption false"})
		}
		if it.pos < len(it.prefix) {
			// replaying a prefix: feasibility already established up to the prefix end
			it.assume(c)
			return nil
		}
		r, _ := it.solver.Check(c, nil)
		if r == ResUnsat {
			panic(&pathEnd{"assume", "assumption infeasible"})
		}
		if r == ResError {
			panic(&pathEnd{"solver-error", "assume"})
		}
		it.assume(c)
		return nil
	case "vAssert":
		it.checkAssert(args[0].(*Term), it.strArg(args[1]))
		return nil
	case "vFail":
		it.checkAssert(ts.Bool(false), it.strArg(args[0]))
		return nil
	case "vCover":
		it.covers[it.strArg(args[0])] = true
		return nil
	case "vMapOrder":
		it.mapOrder = int(it.concInt(args[0].(*Term)))
		return nil
	case "vParam":
		name := it.strArg(args[0])
		if v, ok := it.h.cfg.Params[name]; ok {
			return ts.BV(uint64(int64(v)), 64)
		}
		return args[1]
	case "vNum":
		v := args[0].(*Term)
		if v.IsConst() {
			return concStr(fmt.Sprintf("%d", v.cval))
		}
		return &StrV{b: []*Term{ts.Num(v, 10)}}
	case "vUF1":
		name := it.strArg(args[0])
		x := args[1].(*Term)
		return ts.UF("uf_"+sanitize(name), 64, x)
	case "vUF2":
		name := it.strArg(args[0])
		return ts.UF("uf_"+sanitize(name), 64, args[1].(*Term), args[2].(*Term))
	case "vTrace":
		if it.h.cfg.Verbose {
			fmt.Printf("TRACE %s: %s\n", it.strArg(args[0]), showValue(args[1]))
		}
		return nil
	case "vLockHeld":
		// argument: pointer to a sync.Mutex / sync.RWMutex (passed as any)
		v := args[0]
		if iv, ok := v.(*IfaceV); ok {
			v = iv.v
		}
		p, ok := v.(*Ptr)
		if !ok || p == nil || p.cell == nil {
			panic(unsupported("vLockHeld: not a pointer to a mutex"))
		}
		return ts.Bool(it.locks[lockKey(p)] > 0)
	case "vIsConcrete":
		t, ok := args[0].(*Term)
		return ts.Bool(ok && t.IsConst())
	}
	panic(unsupported("unknown intrinsic " + fn.Name()))
}

func (it *Interp) strArg(v Value) string {
	s, ok := v.(*StrV)
	if !ok || !s.isConc {
		return "<non-constant label>"
	}
	return s.conc
}

// checkAssert decides one obligation: path condition ∧ ¬cond must be unsatisfiable.
func (it *Interp) checkAssert(c *Term, label string) {
	it.asserts++
	it.h.noteObligation(label)
	if c.IsTrue() {
		it.h.noteDischarged(label, "const")
		return
	}
	r, model := it.solver.Check(it.ts.Not(c), it.allNondetTerms())
	switch r {
	case ResUnsat:
		it.h.noteDischarged(label, "unsat")
		return
	case ResSat:
		it.recordViolation(label, model)
		for _, t := range it.h.cfg.Tolerate {
			if t == label {
				// listed known finding: keep exploring beyond it under the assertion
				rr, _ := it.solver.Check(c, nil)
				if rr == ResUnsat {
					panic(&pathEnd{"violation", label})
				}
				it.assume(c)
				return
			}
		}
		panic(&pathEnd{"violation", label})
	case ResUnknown:
		it.h.noteUnknown(label)
		panic(&pathEnd{"unknown", "assertion " + label})
	default:
		panic(&pathEnd{"solver-error", "assertion " + label})
	}
}

func (it *Interp) allNondetTerms() []*Term {
	var r []*Term
	for _, n := range it.nondets {
		if n.term != nil && !n.term.IsConst() {
			r = append(r, n.term)
		}
		for _, v := range n.vals {
			r = append(r, v)
		}
	}
	return r
}

func (it *Interp) recordViolation(label string, model map[string]uint64) {
	recs := make([]nondetRec, len(it.nondets))
	for i, n := range it.nondets {
		recs[i] = nondetRec{Kind: n.Kind, W: n.W, N: n.N}
		if n.term != nil {
			if n.term.IsConst() {
				recs[i].Val = n.term.cval
			} else {
				recs[i].Val = model[it.solver.refOf(n.term)]
			}
		}
		for _, v := range n.vals {
			recs[i].Vals = append(recs[i].Vals, model[it.solver.refOf(v)])
		}
		if n.vals != nil && recs[i].Vals == nil {
			recs[i].Vals = []uint64{}
		}
	}
	it.h.addViolation(label, recs, len(it.trace))
}
