package main

import (
	"fmt"
	"os"
	"runtime/debug"
	"sort"
	"strings"
	"sync"
	"time"

	"golang.org/x/tools/go/ssa"
)

type HarnessCfg struct {
	Name      string            `json:"name"`
	Unwind    int               `json:"unwind"`
	MaxSteps  int               `json:"max_steps"`
	MaxPaths  int               `json:"max_paths"`
	MaxConc   int               `json:"max_conc"`
	TimeoutMs int               `json:"timeout_ms"`
	FallbackS int               `json:"fallback_s"`
	Params    map[string]int    `json:"params"`
	Redirect  map[string]string `json:"redirect"`
	SkipGo    []string          `json:"skip_go"`
	EagerGo   []string          `json:"eager_go"` // goroutines run to completion at their go statement, their channel sends never block
	Covers    []string          `json:"covers"`
	MapOrder  int               `json:"map_order"`
	MapOrderFuncs []string      `json:"map_order_funcs"`
	Verbose   bool              `json:"verbose"`
	MaxViol   int               `json:"max_violations"`
	Tolerate  []string          `json:"tolerate"`
	Summarize []string          `json:"summarize"`
	Reach     bool              `json:"reach"` // reachability twin: assertions replaced by false at the end
}

func (c *HarnessCfg) skipGo(name string) bool {
	for _, s := range c.SkipGo {
		if s == "*" || strings.Contains(name, s) {
			return true
		}
	}
	return false
}

// eagerGo: producer goroutines that are sequentialised: the goroutine's body runs to completion at the go statement and
// every channel it sends on is treated as unbounded while it runs. The sequence of values a deterministic producer sends
// is the same under every schedule in which the consumer keeps receiving, provided the producer reads no state the
// consumer writes (stated as an assumption by the harness that asks for it).
func (c *HarnessCfg) eagerGo(name string) bool {
	for _, s := range c.EagerGo {
		if s == "*" || strings.Contains(name, s) {
			return true
		}
	}
	return false
}

type Violation struct {
	Harness string      `json:"harness"`
	Label   string      `json:"label"`
	Nondets []nondetRec `json:"nondets"`
	Depth   int         `json:"depth"`
}

type HarnessResult struct {
	Name        string            `json:"name"`
	Paths       int               `json:"paths"`
	Ends        map[string]int    `json:"ends"`
	EndMsgs     map[string]string `json:"end_msgs"`
	Obligations int               `json:"obligations"`
	Discharged  int               `json:"discharged"`
	Unknown     int               `json:"unknown"`
	ByLabel     map[string][2]int `json:"by_label"` // label -> [checked, discharged]
	Violations  []Violation       `json:"violations"`
	Covers      []string          `json:"covers"`
	MissingCov  []string          `json:"missing_covers"`
	Funcs       map[string]int    `json:"functions"`
	Stubs       []string          `json:"stubs"`
	Steps       int64             `json:"steps"`
	Queries     int               `json:"queries"`
	Sat         int               `json:"sat"`
	Unsat       int               `json:"unsat"`
	SolverUnk   int               `json:"solver_unknown"`
	SolverErr   int               `json:"solver_errors"`
	Fallbacks   int               `json:"fallback_queries"`
	SolverS     float64           `json:"solver_s"`
	MaxQueryS   float64           `json:"max_query_s"`
	WallS       float64           `json:"wall_s"`
	Clean       bool              `json:"clean"`
	Params      map[string]int    `json:"params"`
	Unwind      int               `json:"unwind"`
}

type HarnessRun struct {
	cfg      HarnessCfg
	fn       *ssa.Function
	prog     *ssa.Program
	redirect map[string]*ssa.Function

	mu     sync.Mutex
	cond   *sync.Cond
	queue  [][]decision
	active int
	pushed int
	stop   bool

	res HarnessResult
}

func (h *HarnessRun) summarizable(name string) bool {
	for _, s := range h.cfg.Summarize {
		if strings.Contains(name, s) {
			return true
		}
	}
	return false
}

func (h *HarnessRun) push(p []decision) {
	h.mu.Lock()
	h.queue = append(h.queue, p)
	h.pushed++
	h.mu.Unlock()
	h.cond.Signal()
}

func (h *HarnessRun) pop() ([]decision, bool) {
	h.mu.Lock()
	defer h.mu.Unlock()
	for {
		if h.stop {
			return nil, false
		}
		if len(h.queue) > 0 {
			p := h.queue[len(h.queue)-1]
			h.queue = h.queue[:len(h.queue)-1]
			h.active++
			return p, true
		}
		if h.active == 0 {
			h.cond.Broadcast()
			return nil, false
		}
		h.cond.Wait()
	}
}

func (h *HarnessRun) done() {
	h.mu.Lock()
	h.active--
	if h.active == 0 && len(h.queue) == 0 {
		h.cond.Broadcast()
	}
	h.mu.Unlock()
}

func (h *HarnessRun) noteObligation(label string) {
	h.mu.Lock()
	h.res.Obligations++
	x := h.res.ByLabel[label]
	x[0]++
	h.res.ByLabel[label] = x
	h.mu.Unlock()
}
func (h *HarnessRun) noteDischarged(label, how string) {
	h.mu.Lock()
	h.res.Discharged++
	x := h.res.ByLabel[label]
	x[1]++
	h.res.ByLabel[label] = x
	h.mu.Unlock()
}
func (h *HarnessRun) noteUnknown(label string) {
	h.mu.Lock()
	h.res.Unknown++
	h.mu.Unlock()
}
func (h *HarnessRun) addViolation(label string, recs []nondetRec, depth int) {
	h.mu.Lock()
	defer h.mu.Unlock()
	// keep at most MaxViol per label-distinct
	cnt := 0
	for _, v := range h.res.Violations {
		if v.Label == label {
			cnt++
		}
	}
	if cnt >= 3 {
		return
	}
	h.res.Violations = append(h.res.Violations, Violation{Harness: h.cfg.Name, Label: label, Nondets: recs, Depth: depth})
	if h.cfg.MaxViol > 0 && len(h.res.Violations) >= h.cfg.MaxViol {
		h.stop = true
		h.cond.Broadcast()
	}
}

func runHarness(prog *ssa.Program, fn *ssa.Function, cfg HarnessCfg, workers int, solverKind string) HarnessResult {
	if cfg.Unwind == 0 {
		cfg.Unwind = 64
	}
	if cfg.MaxSteps == 0 {
		cfg.MaxSteps = 2_000_000
	}
	if cfg.MaxPaths == 0 {
		cfg.MaxPaths = 200_000
	}
	if cfg.MaxConc == 0 {
		cfg.MaxConc = 64
	}
	if cfg.TimeoutMs == 0 {
		cfg.TimeoutMs = 300
	}
	h := &HarnessRun{cfg: cfg, fn: fn, prog: prog, redirect: map[string]*ssa.Function{}}
	h.cond = sync.NewCond(&h.mu)
	h.res = HarnessResult{Name: cfg.Name, Ends: map[string]int{}, EndMsgs: map[string]string{}, ByLabel: map[string][2]int{},
		Funcs: map[string]int{}, Params: cfg.Params, Unwind: cfg.Unwind}
	for from, to := range cfg.Redirect {
		tf := findFunc(prog, fn.Pkg, to)
		if tf == nil {
			h.res.Ends["config-error"]++
			h.res.EndMsgs["config-error"] = "redirect target not found: " + to
			return h.res
		}
		h.redirect[from] = tf
	}
	t0 := time.Now()
	h.queue = append(h.queue, nil)
	covers := map[string]bool{}
	stubs := map[string]bool{}
	var wg sync.WaitGroup
	var agg struct {
		sync.Mutex
		steps int64
	}
	for w := 0; w < workers; w++ {
		wg.Add(1)
		go func() {
			defer wg.Done()
			sv, err := NewSolver(solverKind, cfg.TimeoutMs)
			if err != nil {
				fmt.Fprintln(os.Stderr, "solver start failed:", err)
				return
			}
			sv.fbTimeoutS = cfg.FallbackS
			defer func() {
				h.mu.Lock()
				h.res.Fallbacks += sv.Fallbacks
				h.res.Queries += sv.Queries
				h.res.Sat += sv.Sat
				h.res.Unsat += sv.Unsat
				h.res.SolverUnk += sv.Unknown
				h.res.SolverErr += sv.Errors
				h.res.SolverS += sv.Time.Seconds()
				if sv.MaxQ.Seconds() > h.res.MaxQueryS {
					h.res.MaxQueryS = sv.MaxQ.Seconds()
				}
				h.mu.Unlock()
				sv.Close()
			}()
			wc := &workerCache{snaps: map[*ssa.Package]*pkgSnap{}}
			for {
				prefix, ok := h.pop()
				if !ok {
					return
				}
				it := h.runPath(sv, prefix, wc)
				h.mu.Lock()
				h.res.Paths++
				for k, v := range it.funcs {
					h.res.Funcs[k] = v
				}
				for k := range it.covers {
					covers[k] = true
				}
				for k := range it.stubsUsed {
					stubs[k] = true
				}
				if h.res.Paths >= cfg.MaxPaths && !h.stop {
					h.stop = true
					h.res.Ends["path-cap"]++
					h.cond.Broadcast()
				}
				h.mu.Unlock()
				agg.Lock()
				agg.steps += int64(it.steps)
				agg.Unlock()
				h.done()
			}
		}()
	}
	wg.Wait()
	h.res.Steps = agg.steps
	h.res.WallS = time.Since(t0).Seconds()
	for k := range covers {
		h.res.Covers = append(h.res.Covers, k)
	}
	sort.Strings(h.res.Covers)
	for _, c := range cfg.Covers {
		if !covers[c] {
			h.res.MissingCov = append(h.res.MissingCov, c)
		}
	}
	for k := range stubs {
		h.res.Stubs = append(h.res.Stubs, k)
	}
	sort.Strings(h.res.Stubs)
	bad := 0
	for _, k := range []string{"unsupported", "unwind", "budget", "unknown", "solver-error", "path-cap", "internal", "config-error"} {
		bad += h.res.Ends[k]
	}
	h.res.Clean = bad == 0 && h.res.SolverErr == 0 && len(h.res.MissingCov) == 0 && h.res.Ends["done"] > 0
	return h.res
}

// findFunc resolves a redirect target: a function of the harness's package, or "import/path.Func".
func findFunc(prog *ssa.Program, pkg *ssa.Package, name string) *ssa.Function {
	if i := strings.LastIndex(name, "."); i > 0 {
		if p := prog.ImportedPackage(name[:i]); p != nil {
			ensureBuilt(p)
			return p.Func(name[i+1:])
		}
		return nil
	}
	if f := pkg.Func(name); f != nil {
		return f
	}
	return nil
}

func (h *HarnessRun) runPath(sv *Solver, prefix []decision, wc *workerCache) (it *Interp) {
	ts := NewTermStore()
	sv.PathBegin(ts)
	it = &Interp{prog: h.prog, h: h, ts: ts, solver: sv, prefix: prefix,
		globals: map[*ssa.Global]*Cell{}, pkgInit: map[*ssa.Package]int{}, funcs: map[string]int{},
		covers: map[string]bool{}, stubsUsed: map[string]bool{}, ghost: map[string]Value{}, bypass: map[string]int{}, digests: map[int][]*Term{}, wc: wc, tmplMemo: map[any]any{}, instOf: map[any]any{},
		mapOrder: h.cfg.MapOrder}
	end := "done"
	msg := ""
	func() {
		defer func() {
			if r := recover(); r != nil {
				switch x := r.(type) {
				case *pathEnd:
					end, msg = x.kind, x.msg
					if x.kind == "unsupported" && os.Getenv("GOSYM_STACK") != "" {
						msg += " @ " + it.callStack()
					}
				case *goPanic:
					// an uncaught Go panic in the code under test is a violation of the implicit no-panic obligation
					end, msg = "panic", x.msg+" @"+x.pos
					if os.Getenv("GOSYM_STACK") != "" {
						msg += " @ " + it.callStack()
					}
					func() {
						defer func() {
							if r2 := recover(); r2 != nil {
								if pe, ok := r2.(*pathEnd); ok {
									if pe.kind != "violation" {
										end, msg = pe.kind, pe.msg
									}
									return
								}
								panic(r2)
							}
						}()
						it.h.noteObligation("no-panic")
						rr, model := sv.Check(nil, it.allNondetTerms())
						if rr == ResSat {
							it.recordViolation("panic: "+x.msg, model)
						} else if rr == ResUnsat {
							end = "infeasible"
						} else {
							end = "unknown"
						}
					}()
				default:
					end = "internal"
					st := strings.Split(string(debug.Stack()), "\n")
					if len(st) > 24 {
						st = st[:24]
					}
					msg = fmt.Sprintf("%v\ninterpreted stack: %s\n%s", r, it.callStack(), strings.Join(st, "\n"))
				}
			}
		}()
		it.call(h.fn, nil, nil)
	}()
	sv.PathEnd()
	h.mu.Lock()
	h.res.Ends[end]++
	if msg != "" {
		if _, ok := h.res.EndMsgs[end]; !ok || end == "internal" {
			h.res.EndMsgs[end] = msg
		}
		if end == "unsupported" {
			k := "unsupported: " + msg
			if len(h.res.EndMsgs) < 40 {
				h.res.EndMsgs[k] = "x"
			}
		}
	}
	h.mu.Unlock()
	return it
}
