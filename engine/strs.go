package main

import (
	"fmt"
	"strconv"
)

func (it *Interp) strConcat(a, b *StrV) *StrV {
	if a.isConc && b.isConc {
		return concStr(a.conc + b.conc)
	}
	if a.Len() == 0 {
		return b
	}
	if b.Len() == 0 {
		return a
	}
	r := append(append([]*Term{}, a.bytes(it.ts)...), b.bytes(it.ts)...)
	return &StrV{b: r}
}

func (it *Interp) strLenTerm(s *StrV) *Term {
	if !s.hasNum() {
		return it.ts.BV(uint64(s.Len()), 64)
	}
	if s.lenVar != nil {
		return s.lenVar
	}
	nn := 0
	for _, t := range s.b {
		if t.op == OpNum {
			nn++
		}
	}
	l := it.ts.Var(64, "strlen")
	it.assume(it.ts.ULe(it.ts.BV(uint64(len(s.b)), 64), l))
	it.assume(it.ts.ULe(l, it.ts.BV(uint64(len(s.b)+19*nn), 64)))
	s.lenVar = l
	return l
}

func isDigitByte(c byte, base int) bool {
	if base == 16 {
		return (c >= '0' && c <= '9') || (c >= 'a' && c <= 'f')
	}
	return c >= '0' && c <= '9'
}

// strEq gives string equality as a Bool term.
func (it *Interp) strEq(a, b *StrV) *Term {
	ts := it.ts
	if a.isConc && b.isConc {
		return ts.Bool(a.conc == b.conc)
	}
	if a == b {
		return ts.Bool(true)
	}
	an, bn := a.hasNum(), b.hasNum()
	if !an && !bn {
		if a.Len() != b.Len() {
			return ts.Bool(false)
		}
		ab, bb := a.bytes(ts), b.bytes(ts)
		r := ts.Bool(true)
		for i := range ab {
			r = ts.And(r, ts.Eq(ab[i], bb[i]))
			if r.IsFalse() {
				return r
			}
		}
		return r
	}
	ab, bb := a.bytes(ts), b.bytes(ts)
	// same shape
	if len(ab) == len(bb) {
		same := true
		for i := range ab {
			if (ab[i].op == OpNum) != (bb[i].op == OpNum) {
				same = false
				break
			}
			if ab[i].op == OpNum && ab[i].a != bb[i].a {
				same = false
				break
			}
		}
		if same {
			r := ts.Bool(true)
			for i := range ab {
				if ab[i].op == OpNum {
					r = ts.And(r, ts.Eq(ab[i].args[0], bb[i].args[0]))
				} else {
					r = ts.And(r, ts.Eq(ab[i], bb[i]))
				}
			}
			return r
		}
	}
	// pattern (with Num) against a Num-free string
	if an && bn {
		panic(unsupported("string equality between differently shaped Num strings"))
	}
	pat, str := ab, bb
	if bn {
		pat, str = bb, ab
	}
	if len(str) < len(pat) {
		return ts.Bool(false)
	}
	for _, t := range str {
		if !t.IsConst() {
			panic(unsupported("string equality Num pattern vs symbolic bytes"))
		}
	}
	r := ts.Bool(true)
	j := 0
	for i := 0; i < len(pat); i++ {
		p := pat[i]
		if p.op != OpNum {
			if j >= len(str) {
				return ts.Bool(false)
			}
			r = ts.And(r, ts.Eq(p, str[j]))
			if r.IsFalse() {
				return r
			}
			j++
			continue
		}
		base := p.a
		// delimiter must be a known non-digit (or end)
		if i+1 < len(pat) {
			nx := pat[i+1]
			if !nx.IsConst() || isDigitByte(byte(nx.cval), base) {
				panic(unsupported("Num segment followed by digit-like byte in equality"))
			}
		}
		st := j
		for j < len(str) && isDigitByte(byte(str[j].cval), base) {
			j++
		}
		if j == st {
			return ts.Bool(false)
		}
		digs := make([]byte, j-st)
		for k := st; k < j; k++ {
			digs[k-st] = byte(str[k].cval)
		}
		v, ok := numeralValue(string(digs), base, p.b)
		if !ok {
			return ts.Bool(false)
		}
		r = ts.And(r, ts.Eq(p.args[0], ts.BV(v, p.args[0].w)))
	}
	if j != len(str) {
		return ts.Bool(false)
	}
	return r
}

// numeralValue parses a canonical numeral of the given style; ok=false if not canonical.
// style 0: strconv.FormatUint(v, base) (no leading zeros).
func numeralValue(s string, base int, style int) (uint64, bool) {
	if len(s) == 0 {
		return 0, false
	}
	if len(s) > 1 && s[0] == '0' {
		return 0, false
	}
	v, err := strconv.ParseUint(s, base, 64)
	if err != nil {
		return 0, false
	}
	return v, true
}

// strLess: lexicographic a < b (or <= when orEq).
func (it *Interp) strLess(a, b *StrV, orEq bool) *Term {
	ts := it.ts
	if a.isConc && b.isConc {
		if orEq {
			return ts.Bool(a.conc <= b.conc)
		}
		return ts.Bool(a.conc < b.conc)
	}
	if a.hasNum() || b.hasNum() {
		panic(unsupported("string ordering with Num segment"))
	}
	ab, bb := a.bytes(ts), b.bytes(ts)
	// build from the end
	n := len(ab)
	if len(bb) < n {
		n = len(bb)
	}
	var tail *Term
	if len(ab) < len(bb) {
		tail = ts.Bool(true)
	} else if len(ab) == len(bb) {
		tail = ts.Bool(orEq)
	} else {
		tail = ts.Bool(false)
	}
	r := tail
	for i := n - 1; i >= 0; i-- {
		r = ts.Or(ts.ULt(ab[i], bb[i]), ts.And(ts.Eq(ab[i], bb[i]), r))
	}
	return r
}

func (it *Interp) strIndex(s *StrV, idx *Term) *Term {
	i := it.concIndex(idx, s.Len(), "string")
	if s.isConc {
		return it.ts.BV(uint64(s.conc[i]), 8)
	}
	for k := 0; k <= i; k++ {
		if s.b[k].op == OpNum {
			panic(unsupported("index into string at/after Num segment"))
		}
	}
	return s.b[i]
}

func (it *Interp) needConc(s *StrV, what string) string {
	if !s.isConc {
		panic(unsupported(what + " needs a concrete string, got " + showValue(s)))
	}
	return s.conc
}

func fmtInt(t *Term, signed bool) string {
	if signed {
		return fmt.Sprintf("%d", sext(t.cval, t.w))
	}
	return fmt.Sprintf("%d", t.cval)
}
