package main

import (
	"fmt"
	"strconv"
)

func (it *Interp) strConcat(a, b *StrV) *StrV {
	if a.isConc && b.isConc {
		return concStr(a.conc + b.conc)
	}
	if a.Len() == 0 {
		return b
	}
	if b.Len() == 0 {
		return a
	}
	r := append(append([]*Term{}, a.bytes(it.ts)...), b.bytes(it.ts)...)
	return &StrV{b: r}
}

func (it *Interp) strLenTerm(s *StrV) *Term {
	if !s.hasNum() {
		return it.ts.BV(uint64(s.Len()), 64)
	}
	if s.lenVar != nil {
		return s.lenVar
	}
	nn := 0
	for _, t := range s.b {
		if t.op == OpNum {
			nn++
		}
	}
	l := it.ts.Var(64, "strlen")
	it.assume(it.ts.ULe(it.ts.BV(uint64(len(s.b)), 64), l))
	it.assume(it.ts.ULe(l, it.ts.BV(uint64(len(s.b)+19*nn), 64)))
	s.lenVar = l
	return l
}

func isDigitByte(c byte, base int) bool {
	if base == 16 {
		return (c >= '0' && c <= '9') || (c >= 'a' && c <= 'f')
	}
	return c >= '0' && c <= '9'
}

// strEq gives string equality as a Bool term.
func (it *Interp) strEq(a, b *StrV) *Term {
	ts := it.ts
	if a.isConc && b.isConc {
		return ts.Bool(a.conc == b.conc)
	}
	if a == b {
		return ts.Bool(true)
	}
	an, bn := a.hasNum(), b.hasNum()
	if !an && !bn {
		if a.Len() != b.Len() {
			return ts.Bool(false)
		}
		ab, bb := a.bytes(ts), b.bytes(ts)
		r := ts.Bool(true)
		for i := range ab {
			r = ts.And(r, ts.Eq(ab[i], bb[i]))
			if r.IsFalse() {
				return r
			}
		}
		return r
	}
	ab, bb := a.bytes(ts), b.bytes(ts)
	// same shape
	if len(ab) == len(bb) {
		same := true
		for i := range ab {
			if (ab[i].op == OpNum) != (bb[i].op == OpNum) {
				same = false
				break
			}
			if ab[i].op == OpNum && (ab[i].a != bb[i].a || ab[i].b != bb[i].b) {
				same = false
				break
			}
		}
		if same {
			r := ts.Bool(true)
			for i := range ab {
				if ab[i].op == OpNum {
					r = ts.And(r, ts.Eq(ab[i].args[0], bb[i].args[0]))
				} else {
					r = ts.And(r, ts.Eq(ab[i], bb[i]))
				}
			}
			return r
		}
	}
	// pattern (with Num) against a Num-free string
	if an && bn {
		panic(unsupported("string equality between differently shaped Num strings"))
	}
	pat, str := ab, bb
	if bn {
		pat, str = bb, ab
	}
	if len(str) < len(pat) {
		return ts.Bool(false)
	}
	for _, t := range str {
		if !t.IsConst() {
			panic(unsupported("string equality Num pattern vs symbolic bytes"))
		}
	}
	r := ts.Bool(true)
	j := 0
	for i := 0; i < len(pat); i++ {
		p := pat[i]
		if p.op != OpNum {
			if j >= len(str) {
				return ts.Bool(false)
			}
			r = ts.And(r, ts.Eq(p, str[j]))
			if r.IsFalse() {
				return r
			}
			j++
			continue
		}
		base := p.a
		// delimiter must be a known non-digit (or end)
		if i+1 < len(pat) {
			nx := pat[i+1]
			if !nx.IsConst() || isDigitByte(byte(nx.cval), base) {
				panic(unsupported("Num segment followed by digit-like byte in equality"))
			}
		}
		st := j
		for j < len(str) && isDigitByte(byte(str[j].cval), base) {
			j++
		}
		if j == st {
			return ts.Bool(false)
		}
		digs := make([]byte, j-st)
		for k := st; k < j; k++ {
			digs[k-st] = byte(str[k].cval)
		}
		v, ok := numeralValue(string(digs), base, p.b)
		if !ok {
			return ts.Bool(false)
		}
		r = ts.And(r, ts.Eq(p.args[0], ts.BV(v, p.args[0].w)))
	}
	if j != len(str) {
		return ts.Bool(false)
	}
	return r
}

// numeralValue parses a canonical numeral of the given style; ok=false if not canonical.
// style 0: strconv.FormatUint(v, base) (no leading zeros).
func numeralValue(s string, base int, style int) (uint64, bool) {
	if len(s) == 0 {
		return 0, false
	}
	if style > 0 {
		// fixed width, zero padded
		if len(s) != style {
			return 0, false
		}
		v, err := strconv.ParseUint(s, base, 64)
		return v, err == nil
	}
	if len(s) > 1 && s[0] == '0' {
		return 0, false
	}
	v, err := strconv.ParseUint(s, base, 64)
	if err != nil {
		return 0, false
	}
	return v, true
}

// strLess: lexicographic a < b (or <= when orEq).
func (it *Interp) strLess(a, b *StrV, orEq bool) *Term {
	ts := it.ts
	if a.isConc && b.isConc {
		if orEq {
			return ts.Bool(a.conc <= b.conc)
		}
		return ts.Bool(a.conc < b.conc)
	}
	if a.hasNum() || b.hasNum() {
		panic(unsupported("string ordering with Num segment"))
	}
	ab, bb := a.bytes(ts), b.bytes(ts)
	// build from the end
	n := len(ab)
	if len(bb) < n {
		n = len(bb)
	}
	var tail *Term
	if len(ab) < len(bb) {
		tail = ts.Bool(true)
	} else if len(ab) == len(bb) {
		tail = ts.Bool(orEq)
	} else {
		tail = ts.Bool(false)
	}
	r := tail
	for i := n - 1; i >= 0; i-- {
		r = ts.Or(ts.ULt(ab[i], bb[i]), ts.And(ts.Eq(ab[i], bb[i]), r))
	}
	return r
}

func (it *Interp) strIndex(s *StrV, idx *Term) *Term {
	if !idx.IsConst() && s.isConc {
		// index is itself a small ite tree over constants: push the lookup through it
		n := len(s.conc)
		if r := it.mapConstLeaves(idx, 0, func(c uint64) *Term {
			if c >= uint64(n) {
				return nil
			}
			return it.ts.BV(uint64(s.conc[c]), 8)
		}); r != nil {
			return it.identityChain(r)
		}
	}
	if !idx.IsConst() && s.isConc && len(s.conc) >= 8 && it.symIndexInRange(idx, len(s.conc)) {
		// constant table indexed by a symbolic value: ite over the distinct bytes
		ts := it.ts
		conds := map[byte]*Term{}
		count := map[byte]int{}
		var order []byte
		for i := 0; i < len(s.conc); i++ {
			c := s.conc[i]
			if _, ok := conds[c]; !ok {
				conds[c] = ts.Bool(false)
				order = append(order, c)
			}
			conds[c] = ts.Or(conds[c], ts.Eq(idx, ts.BV(uint64(i), idx.w)))
			count[c]++
		}
		best := order[0]
		for _, c := range order {
			if count[c] > count[best] {
				best = c
			}
		}
		acc := ts.BV(uint64(best), 8)
		for _, c := range order {
			if c != best {
				acc = ts.Ite(conds[c], ts.BV(uint64(c), 8), acc)
			}
		}
		return it.identityChain(acc)
	}
	i := it.concIndex(idx, s.Len(), "string")
	if s.isConc {
		return it.ts.BV(uint64(s.conc[i]), 8)
	}
	for k := 0; k < i; k++ {
		if s.b[k].op == OpNum {
			panic(unsupported("index into string after Num segment"))
		}
	}
	if s.b[i].op == OpNum {
		// first character of a canonical numeral: some digit of its base (over-approximation)
		base := s.b[i].a
		if base != 10 && base != 16 {
			panic(unsupported("index into opaque string"))
		}
		d := it.ts.Var(8, "numfirst")
		ts := it.ts
		isDig := ts.And(ts.ULe(ts.BV('0', 8), d), ts.ULe(d, ts.BV('9', 8)))
		if base == 16 {
			isDig = ts.Or(isDig, ts.And(ts.ULe(ts.BV('a', 8), d), ts.ULe(d, ts.BV('f', 8))))
		}
		it.assume(isDig)
		return d
	}
	return s.b[i]
}

func (it *Interp) needConc(s *StrV, what string) string {
	if !s.isConc {
		panic(unsupported(what + " needs a concrete string, got " + showValue(s)))
	}
	return s.conc
}

func fmtInt(t *Term, signed bool) string {
	if signed {
		return fmt.Sprintf("%d", sext(t.cval, t.w))
	}
	return fmt.Sprintf("%d", t.cval)
}

// mapConstLeaves rewrites f(t) when t is an ite tree whose leaves are all constants (at most 64 leaves).
func (it *Interp) mapConstLeaves(t *Term, depth int, f func(uint64) *Term) *Term {
	if depth > 64 {
		return nil
	}
	switch t.op {
	case OpConst:
		return f(t.cval)
	case OpIte:
		a := it.mapConstLeaves(t.args[1], depth+1, f)
		if a == nil {
			return nil
		}
		b := it.mapConstLeaves(t.args[2], depth+1, f)
		if b == nil {
			return nil
		}
		return it.ts.Ite(t.args[0], a, b)
	case OpZExt:
		return it.mapConstLeaves(t.args[0], depth+1, f)
	}
	return nil
}

// identityChain recognises ite(e==k1, k1, ite(e==k2, k2, ... d)) covering the whole (narrow) domain of e
// with every leaf equal to its guard constant, and replaces it by e itself.
func (it *Interp) identityChain(t *Term) *Term {
	ts := it.ts
	var e *Term
	seen := map[uint64]bool{}
	cur := t
	for cur.op == OpIte {
		c := cur.args[0]
		if c.op != OpEq {
			return t
		}
		var k, x *Term
		if c.args[0].IsConst() {
			k, x = c.args[0], c.args[1]
		} else if c.args[1].IsConst() {
			k, x = c.args[1], c.args[0]
		} else {
			return t
		}
		if e == nil {
			e = x
		} else if e != x {
			return t
		}
		leaf := cur.args[1]
		if !leaf.IsConst() || leaf.cval != k.cval || seen[k.cval] {
			return t
		}
		seen[k.cval] = true
		cur = cur.args[2]
	}
	if e == nil || !cur.IsConst() || seen[cur.cval] {
		return t
	}
	seen[cur.cval] = true
	w0 := effWidth(e)
	if w0 > 8 || len(seen) != 1<<uint(w0) {
		return t
	}
	for k := range seen {
		if k >= 1<<uint(w0) {
			return t
		}
	}
	if e.w == t.w {
		return e
	}
	if e.w > t.w {
		return ts.Extract(e, t.w-1, 0)
	}
	return ts.ZExt(e, t.w)
}

// effWidth bounds the number of significant low bits of a term (values are < 2^effWidth).
func effWidth(e *Term) int {
	switch e.op {
	case OpZExt:
		return effWidth(e.args[0])
	case OpLShr:
		if e.args[1].IsConst() && e.args[1].cval < uint64(e.w) {
			w := effWidth(e.args[0]) - int(e.args[1].cval)
			if w < 0 {
				w = 0
			}
			return w
		}
	case OpBAnd:
		for i := 0; i < 2; i++ {
			if c := e.args[i]; c.IsConst() {
				m := c.cval
				// mask of the form 2^k-1
				if m&(m+1) == 0 {
					k := 0
					for m != 0 {
						k++
						m >>= 1
					}
					if o := effWidth(e.args[1-i]); o < k {
						return o
					}
					return k
				}
			}
		}
	}
	return e.w
}
