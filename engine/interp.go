package main

import (
	"fmt"
	"go/constant"
	"go/token"
	"go/types"
	"math"
	"os"
	"strconv"
	"strings"
	"sync"

	"golang.org/x/tools/go/ssa"
)

// pathEnd is thrown (as a Go panic) to terminate the current symbolic path.
type pathEnd struct {
	kind string // done | infeasible | unsupported | unwind | assume | budget
	msg  string
}

func unsupported(msg string) *pathEnd { return &pathEnd{"unsupported", msg} }

// goPanic is an interpreted Go panic travelling up the interpreted stack.
type goPanic struct {
	val Value
	msg string
	pos string
}

type deferred struct {
	fn     Value // *FuncV
	args   []Value
	invoke *types.Func
	recv   Value
}

type frame struct {
	fn        *ssa.Function
	env       map[ssa.Value]Value
	defers    []deferred
	visits    map[*ssa.BasicBlock]int
	panicking *goPanic
	lenient   bool
	caller    *frame
}

type decision struct {
	choice int
	excl   []uint64 // for concretisation decisions
	val    uint64
}

type nondetRec struct {
	Kind string `json:"kind"`
	W    int    `json:"w"`
	term *Term
	Val  uint64 `json:"val"`
	N    int    `json:"n,omitempty"`
	vals []*Term
	Vals []uint64 `json:"vals,omitempty"`
}

var buildMu sync.Mutex

var debugStack = os.Getenv("GOSYM_STACK") != ""

var traceCalls = func() int {
	n, _ := strconv.Atoi(os.Getenv("GOSYM_TRACECALLS"))
	return n
}()

type Interp struct {
	prog   *ssa.Program
	h      *HarnessRun
	ts     *TermStore
	solver *Solver

	prefix  []decision
	pos     int
	trace   []decision
	nondets []*nondetRec
	pcLen   int
	elastic int // >0 while a sequentialised producer goroutine runs: channel sends never block

	globals  map[*ssa.Global]*Cell
	pkgInit  map[*ssa.Package]int
	steps    int
	cellID   int
	depth    int
	mapOrder int
	top      *frame

	funcs     map[string]int // functions entered -> #instrs
	covers    map[string]bool
	asserts   int
	stubsUsed map[string]bool
	ghost     map[string]Value
	timeNow   *Term
	bypass    map[string]int
	spec      int
	noMerge   bool
	sum       *sumState
	noSum     int
	initDepth int
	clock     int
	wc        *workerCache
	tmplMemo  map[any]any // template object -> instance in this path
	instOf    map[any]any // instance in this path -> template object
	digests    map[int][]*Term
	digestApps []digestApp
	uuids      []*Term
	expectPanic bool
	locks       map[string]int // mutexes currently held (lockKey -> depth)
}

func (it *Interp) newCell(v Value, t types.Type, tag string) *Cell {
	it.cellID++
	return &Cell{v: v, id: it.cellID, typ: t, tag: tag}
}

// ---------------------------------------------------------------- decisions

// choose picks one of the alternatives (terms that are mutually exclusive under the path condition).
// Alternatives that are constant false are skipped. In replay-prefix mode the recorded choice is taken
// without a solver call; otherwise every alternative's feasibility is decided by the solver, the
// first feasible one is followed and the others are scheduled.
type specAbort struct{}

func (it *Interp) choose(alts []*Term, exhaustive bool) int {
	if it.sum != nil {
		return it.sumChoose(alts)
	}
	if it.spec > 0 {
		for i, a := range alts {
			if a.IsTrue() {
				return i
			}
		}
		panic(specAbort{})
	}
	// fast path: constant alternatives
	nonFalse := -1
	cnt := 0
	for i, a := range alts {
		if a.IsTrue() {
			return i
		}
		if !a.IsFalse() {
			cnt++
			nonFalse = i
		}
	}
	if cnt == 0 {
		panic(&pathEnd{"infeasible", "no alternative"})
	}
	if cnt == 1 && exhaustive {
		it.assume(alts[nonFalse])
		return nonFalse
	}
	if it.pos < len(it.prefix) {
		d := it.prefix[it.pos]
		it.pos++
		it.trace = append(it.trace, d)
		it.assume(alts[d.choice])
		return d.choice
	}
	it.pos++
	var feas []int
	for i, a := range alts {
		if a.IsFalse() {
			continue
		}
		if exhaustive && len(feas) == 0 && i == len(alts)-1 {
			// all others infeasible and the set is exhaustive: this one must hold
			feas = append(feas, i)
			break
		}
		r, _ := it.solver.Check(a, nil)
		if r == ResError {
			panic(&pathEnd{"solver-error", "feasibility"})
		}
		if r != ResUnsat { // sat or unknown: keep (unknown keeps soundness for violations since those need sat)
			feas = append(feas, i)
		}
	}
	if len(feas) == 0 {
		panic(&pathEnd{"infeasible", "no feasible alternative"})
	}
	for _, k := range feas[1:] {
		np := make([]decision, len(it.trace)+1)
		copy(np, it.trace)
		np[len(it.trace)] = decision{choice: k}
		it.h.push(np)
	}
	it.trace = append(it.trace, decision{choice: feas[0]})
	it.assume(alts[feas[0]])
	return feas[0]
}

// permChoice makes an unconstrained n-way choice (no solver involvement).
func (it *Interp) freeChoice(n int) int {
	if n <= 1 {
		return 0
	}
	if it.spec > 0 || it.sum != nil {
		panic(specAbort{})
	}
	if it.pos < len(it.prefix) {
		d := it.prefix[it.pos]
		it.pos++
		it.trace = append(it.trace, d)
		return d.choice
	}
	it.pos++
	for k := 1; k < n; k++ {
		np := make([]decision, len(it.trace)+1)
		copy(np, it.trace)
		np[len(it.trace)] = decision{choice: k}
		it.h.push(np)
	}
	it.trace = append(it.trace, decision{choice: 0})
	return 0
}

func (it *Interp) assume(c *Term) {
	if c.IsTrue() {
		return
	}
	if it.sum != nil {
		panic(specAbort{})
	}
	it.ts.NoteAssumed(c)
	it.solver.Assert(c)
	it.pcLen++
}

func (it *Interp) branch(c *Term) bool {
	if c.IsConst() {
		return c.cval == 1
	}
	return it.choose([]*Term{c, it.ts.Not(c)}, true) == 0
}

// concInt concretises a symbolic integer by lazy enumeration of its feasible values.
func (it *Interp) concInt(t *Term) uint64 {
	if t.IsConst() {
		return t.cval
	}
	if it.spec > 0 || it.sum != nil {
		panic(specAbort{})
	}
	var excl []uint64
	replay := false
	if it.pos < len(it.prefix) {
		d := it.prefix[it.pos]
		if d.excl == nil {
			// fully decided value
			it.pos++
			it.trace = append(it.trace, d)
			it.assume(it.ts.Eq(t, it.ts.BV(d.val, t.w)))
			return d.val
		}
		excl = d.excl
		replay = true
	}
	it.pos++
	if len(excl) >= it.h.cfg.MaxConc {
		panic(unsupported(fmt.Sprintf("concretisation of %s exceeds %d values", t, it.h.cfg.MaxConc)))
	}
	cond := it.ts.Bool(true)
	for _, e := range excl {
		cond = it.ts.And(cond, it.ts.Not(it.ts.Eq(t, it.ts.BV(e, t.w))))
	}
	r, m := it.solver.Check(cond, []*Term{t})
	if r == ResUnsat {
		panic(&pathEnd{"infeasible", "concretisation exhausted"})
	}
	if r != ResSat {
		panic(&pathEnd{"unknown", "concretisation query"})
	}
	_ = replay
	v := m[it.solver.refOf(t)]
	// schedule the remaining values
	ne := append(append([]uint64{}, excl...), v)
	np := make([]decision, len(it.trace)+1)
	copy(np, it.trace)
	np[len(it.trace)] = decision{excl: ne}
	it.h.push(np)
	it.trace = append(it.trace, decision{val: v})
	it.assume(it.ts.Eq(t, it.ts.BV(v, t.w)))
	return v
}

// concIndex concretises idx into [0,n); an out-of-range value is a Go panic.
func (it *Interp) concIndex(idx *Term, n int, what string) int {
	if idx.IsConst() {
		v := idx.cval
		if idx.w < 64 {
			v = uint64(sext(v, idx.w))
		}
		if v >= uint64(n) {
			it.goPanicf("runtime error: index out of range [%d] with length %d (%s)", int64(v), n, what)
		}
		return int(v)
	}
	if n > it.h.cfg.MaxConc {
		panic(unsupported("symbolic index into large object"))
	}
	alts := make([]*Term, n+1)
	for i := 0; i < n; i++ {
		alts[i] = it.ts.Eq(idx, it.ts.BV(uint64(i), idx.w))
	}
	alts[n] = it.ts.Not(it.ts.ULt(idx, it.ts.BV(uint64(n), idx.w)))
	k := it.choose(alts, true)
	if k == n {
		it.goPanicf("runtime error: index out of range (symbolic) with length %d (%s)", n, what)
	}
	return k
}

func (it *Interp) goPanicf(format string, a ...interface{}) {
	msg := fmt.Sprintf(format, a...)
	panic(&goPanic{val: &IfaceV{t: types.Typ[types.String], v: concStr(msg)}, msg: msg})
}

// ---------------------------------------------------------------- memory

func (it *Interp) load(p *Ptr) Value {
	if p.isNil() {
		it.goPanicf("runtime error: invalid memory address or nil pointer dereference")
	}
	v := p.cell.v
	if p.sym != nil {
		return it.loadSym(p)
	}
	for _, i := range p.path {
		switch x := v.(type) {
		case *StructV:
			v = x.f[i]
		case *ArrayV:
			if i >= len(x.e) {
				panic(fmt.Sprintf("internal: load path index %d >= %d", i, len(x.e)))
			}
			v = x.e[i]
		case Poison:
			panic(unsupported("read of poisoned global: " + x.why))
		default:
			panic(unsupported(fmt.Sprintf("load path through %T", v)))
		}
	}
	if po, ok := v.(Poison); ok && it.top != nil && !it.top.lenient {
		panic(unsupported("read of poisoned global: " + po.why))
	}
	return v
}

func setPath(v Value, path []int, nv Value) Value {
	if len(path) == 0 {
		return nv
	}
	switch x := v.(type) {
	case *StructV:
		f := make([]Value, len(x.f))
		copy(f, x.f)
		f[path[0]] = setPath(f[path[0]], path[1:], nv)
		return &StructV{f}
	case *ArrayV:
		e := make([]Value, len(x.e))
		copy(e, x.e)
		e[path[0]] = setPath(e[path[0]], path[1:], nv)
		return &ArrayV{e}
	case Poison:
		panic(unsupported("write into poisoned global: " + x.why))
	}
	panic(unsupported(fmt.Sprintf("store path through %T", v)))
}

func (it *Interp) store(p *Ptr, v Value) {
	if !p.isNil() && p.sym != nil {
		i := it.concIndex(p.sym, p.symN, "store through symbolic index")
		p = &Ptr{cell: p.cell, path: append(append([]int{}, p.path...), p.symOff+i)}
	}
	if p.isNil() {
		it.goPanicf("runtime error: invalid memory address or nil pointer dereference (store)")
	}
	if it.sum != nil && p.cell.id <= it.sum.startCell {
		panic(specAbort{})
	}
	p.cell.v = setPath(p.cell.v, p.path, v)
}

// loadSym reads an element of a scalar array at a symbolic index as an ite over the distinct stored values.
func (it *Interp) loadSym(p *Ptr) Value {
	v := p.cell.v
	for _, i := range p.path {
		switch x := v.(type) {
		case *StructV:
			v = x.f[i]
		case *ArrayV:
			v = x.e[i]
		default:
			panic(unsupported("symbolic-index load through non-aggregate"))
		}
	}
	arr, ok := v.(*ArrayV)
	if !ok {
		panic(unsupported("symbolic-index load on non-array"))
	}
	ts := it.ts
	if r := it.mapConstLeaves(p.sym, 0, func(c uint64) *Term {
		if c >= uint64(p.symN) {
			return nil
		}
		t, ok := arr.e[p.symOff+int(c)].(*Term)
		if !ok || t.op == OpNum {
			return nil
		}
		return t
	}); r != nil {
		return it.identityChain(r)
	}
	// group indices by value
	type grp struct {
		val  *Term
		cond *Term
	}
	var groups []*grp
	byID := map[int]*grp{}
	count := map[int]int{}
	for i := 0; i < p.symN; i++ {
		t, ok := arr.e[p.symOff+i].(*Term)
		if !ok || t.op == OpNum {
			panic(unsupported("symbolic-index load of non-scalar element"))
		}
		g := byID[t.id]
		if g == nil {
			g = &grp{val: t, cond: ts.Bool(false)}
			byID[t.id] = g
			groups = append(groups, g)
		}
		g.cond = ts.Or(g.cond, ts.Eq(p.sym, ts.BV(uint64(i), p.sym.w)))
		count[t.id]++
	}
	// the most frequent value becomes the default
	best := groups[0]
	for _, g := range groups {
		if count[g.val.id] > count[best.val.id] {
			best = g
		}
	}
	acc := best.val
	for _, g := range groups {
		if g != best {
			acc = ts.Ite(g.cond, g.val, acc)
		}
	}
	return acc
}

func subPtr(p *Ptr, i int) *Ptr {
	if p.sym != nil {
		panic(unsupported("field of element at symbolic index"))
	}
	np := make([]int, len(p.path)+1)
	copy(np, p.path)
	np[len(p.path)] = i
	return &Ptr{cell: p.cell, path: np}
}

// ---------------------------------------------------------------- globals & package init

func (it *Interp) globalCell(g *ssa.Global) *Cell {
	if c, ok := it.globals[g]; ok {
		return c
	}
	pkg := g.Pkg
	it.ensureInit(pkg)
	if c, ok := it.globals[g]; ok {
		return c
	}
	c := it.newCell(it.zero(g.Type().(*types.Pointer).Elem()), g.Type().(*types.Pointer).Elem(), "global "+g.String())
	it.globals[g] = c
	return c
}

// builtPkgs: packages whose Build has completed. A function of a package that another worker is still building may
// already have some of its blocks (fn.Blocks != nil) but no parameters or terminators yet, so "has a body" is never
// decided by looking at the function: the caller waits for the package's build to complete first.
var builtPkgs sync.Map

func ensureBuilt(pkg *ssa.Package) {
	if _, ok := builtPkgs.Load(pkg); ok {
		return
	}
	buildMu.Lock()
	pkg.Build()
	buildMu.Unlock()
	builtPkgs.Store(pkg, true)
}

// ensureInit evaluates the synthesized package initialiser leniently: calls that cannot be
// interpreted poison their result; dependencies' initialisers are run lazily on first use.
func (it *Interp) ensureInit(pkg *ssa.Package) {
	if pkg == nil || it.pkgInit[pkg] != 0 {
		return
	}
	it.pkgInit[pkg] = 1
	if it.wc != nil {
		if snap, ok := it.wc.snaps[pkg]; ok && snap != nil {
			it.instantiateSnap(pkg, snap)
			it.pkgInit[pkg] = 2
			return
		}
	}
	ensureBuilt(pkg)
	initFn := pkg.Func("init")
	if initFn == nil || len(initFn.Blocks) == 0 {
		it.pkgInit[pkg] = 2
		return
	}
	// pre-create all globals of the package; those touched by init start poisoned
	touched := map[*ssa.Global]bool{}
	for _, b := range initFn.Blocks {
		for _, ins := range b.Instrs {
			for _, op := range ins.Operands(nil) {
				if g, ok := (*op).(*ssa.Global); ok && g.Pkg == pkg {
					touched[g] = true
				}
			}
		}
	}
	for _, m := range pkg.Members {
		if g, ok := m.(*ssa.Global); ok {
			if _, done := it.globals[g]; done {
				continue
			}
			et := g.Type().(*types.Pointer).Elem()
			var v Value
			if touched[g] && g.Name() != "init$guard" {
				v = it.poisonOrZero(et, "uninitialised "+g.String())
			} else {
				v = it.zeroSafe(et)
			}
			it.globals[g] = it.newCell(v, et, "global "+g.String())
		}
	}
	saveTop := it.top
	saveSteps := it.steps
	it.initDepth++
	defer func() { it.initDepth-- }()
	func() {
		defer func() {
			if r := recover(); r != nil {
				if pe, ok := r.(*pathEnd); ok && (pe.kind == "unsupported" || pe.kind == "budget" || pe.kind == "unwind") {
					return
				}
				if _, ok := r.(*goPanic); ok {
					return
				}
				panic(r)
			}
		}()
		fr := &frame{fn: initFn, env: map[ssa.Value]Value{}, visits: map[*ssa.BasicBlock]int{}, lenient: true, caller: it.top}
		it.top = fr
		it.run(fr)
	}()
	if traceCalls > 0 {
		fmt.Fprintf(os.Stderr, "INIT %s steps=%d\n", pkg.Pkg.Path(), it.steps-saveSteps)
	}
	it.top = saveTop
	it.steps = saveSteps
	it.pkgInit[pkg] = 2
	if it.wc != nil {
		if _, done := it.wc.snaps[pkg]; !done {
			it.wc.snaps[pkg] = it.makeSnap(pkg)
		}
	}
}

// ---------------------------------------------------------------- package-init snapshots (per worker)

// Package initialisers are deterministic and concrete, so their result is computed once per worker and
// copied into every later path (preserving pointer identity across packages through template objects).
type workerCache struct {
	snaps map[*ssa.Package]*pkgSnap
}

type pkgSnap struct {
	globals map[*ssa.Global]*Cell // template cells
}

type snapFail struct{}

func (it *Interp) makeSnap(pkg *ssa.Package) (snap *pkgSnap) {
	defer func() {
		if r := recover(); r != nil {
			if _, ok := r.(snapFail); ok {
				snap = nil // not cacheable (symbolic content); re-run the initialiser on every path
				return
			}
			panic(r)
		}
	}()
	snap = &pkgSnap{globals: map[*ssa.Global]*Cell{}}
	for _, m := range pkg.Members {
		if g, ok := m.(*ssa.Global); ok {
			if c, ok := it.globals[g]; ok {
				snap.globals[g] = it.toTemplate(c).(*Cell)
			}
		}
	}
	return snap
}

// toTemplate returns the template counterpart of a path object (cell, map, channel), creating it if needed.
func (it *Interp) toTemplate(obj any) any {
	if t, ok := it.instOf[obj]; ok {
		return t
	}
	switch x := obj.(type) {
	case *Cell:
		tc := &Cell{id: 0, typ: x.typ, tag: x.tag}
		it.instOf[x] = tc
		it.tmplMemo[tc] = x
		tc.v = it.tmplValue(x.v)
		return tc
	case *MapObj:
		tm := &MapObj{}
		it.instOf[x] = tm
		it.tmplMemo[tm] = x
		for _, e := range x.entries {
			tm.entries = append(tm.entries, mapEntry{it.tmplValue(e.k), it.tmplValue(e.v)})
		}
		return tm
	case *ChanObj:
		tcn := &ChanObj{cap: x.cap, closed: x.closed}
		it.instOf[x] = tcn
		it.tmplMemo[tcn] = x
		for _, b := range x.buf {
			tcn.buf = append(tcn.buf, it.tmplValue(b))
		}
		return tcn
	}
	panic("internal: toTemplate of unknown object")
}

func (it *Interp) tmplValue(v Value) Value {
	switch x := v.(type) {
	case nil:
		return nil
	case *Term:
		if !x.IsConst() {
			panic(snapFail{})
		}
		return x
	case FloatV, ComplexV, Poison:
		return v
	case *StrV:
		if x.isConc {
			return x
		}
		panic(snapFail{})
	case *StructV:
		f := make([]Value, len(x.f))
		for i := range f {
			f[i] = it.tmplValue(x.f[i])
		}
		return &StructV{f}
	case *ArrayV:
		e := make([]Value, len(x.e))
		for i := range e {
			e[i] = it.tmplValue(x.e[i])
		}
		return &ArrayV{e}
	case *Ptr:
		if x.isNil() {
			return x
		}
		if x.sym != nil {
			panic(snapFail{})
		}
		return &Ptr{cell: it.toTemplate(x.cell).(*Cell), path: x.path}
	case *SliceV:
		if x.cell == nil {
			return x
		}
		return &SliceV{cell: it.toTemplate(x.cell).(*Cell), off: x.off, len: x.len, cap: x.cap}
	case *MapV:
		if x.m == nil {
			return x
		}
		return &MapV{m: it.toTemplate(x.m).(*MapObj)}
	case *ChanV:
		if x.ch == nil {
			return x
		}
		return &ChanV{ch: it.toTemplate(x.ch).(*ChanObj)}
	case *IfaceV:
		if x.t == nil {
			return x
		}
		return &IfaceV{t: x.t, v: it.tmplValue(x.v)}
	case *FuncV:
		if len(x.binds) == 0 {
			return x
		}
		b := make([]Value, len(x.binds))
		for i := range b {
			b[i] = it.tmplValue(x.binds[i])
		}
		return &FuncV{fn: x.fn, binds: b, native: x.native}
	case TupleV:
		r := make(TupleV, len(x))
		for i := range r {
			r[i] = it.tmplValue(x[i])
		}
		return r
	}
	panic(snapFail{})
}

func (it *Interp) instantiateSnap(pkg *ssa.Package, snap *pkgSnap) {
	for g, tc := range snap.globals {
		if _, ok := it.globals[g]; ok {
			continue
		}
		it.globals[g] = it.fromTemplate(tc).(*Cell)
	}
}

func (it *Interp) fromTemplate(obj any) any {
	if i, ok := it.tmplMemo[obj]; ok {
		return i
	}
	switch x := obj.(type) {
	case *Cell:
		it.cellID++
		nc := &Cell{id: it.cellID, typ: x.typ, tag: x.tag}
		it.tmplMemo[x] = nc
		it.instOf[nc] = x
		nc.v = it.instValue(x.v)
		return nc
	case *MapObj:
		it.cellID++
		nm := &MapObj{id: it.cellID}
		it.tmplMemo[x] = nm
		it.instOf[nm] = x
		for _, e := range x.entries {
			nm.entries = append(nm.entries, mapEntry{it.instValue(e.k), it.instValue(e.v)})
		}
		return nm
	case *ChanObj:
		it.cellID++
		nc := &ChanObj{cap: x.cap, closed: x.closed, id: it.cellID}
		it.tmplMemo[x] = nc
		it.instOf[nc] = x
		for _, b := range x.buf {
			nc.buf = append(nc.buf, it.instValue(b))
		}
		return nc
	}
	panic("internal: fromTemplate of unknown object")
}

func (it *Interp) instValue(v Value) Value {
	switch x := v.(type) {
	case nil:
		return nil
	case *Term:
		if x.w == 0 {
			return it.ts.Bool(x.cval == 1)
		}
		return it.ts.BV(x.cval, x.w)
	case FloatV, ComplexV, Poison:
		return v
	case *StrV:
		return x
	case *StructV:
		f := make([]Value, len(x.f))
		for i := range f {
			f[i] = it.instValue(x.f[i])
		}
		return &StructV{f}
	case *ArrayV:
		e := make([]Value, len(x.e))
		for i := range e {
			e[i] = it.instValue(x.e[i])
		}
		return &ArrayV{e}
	case *Ptr:
		if x.isNil() {
			return x
		}
		return &Ptr{cell: it.fromTemplate(x.cell).(*Cell), path: x.path}
	case *SliceV:
		if x.cell == nil {
			return x
		}
		return &SliceV{cell: it.fromTemplate(x.cell).(*Cell), off: x.off, len: x.len, cap: x.cap}
	case *MapV:
		if x.m == nil {
			return x
		}
		return &MapV{m: it.fromTemplate(x.m).(*MapObj)}
	case *ChanV:
		if x.ch == nil {
			return x
		}
		return &ChanV{ch: it.fromTemplate(x.ch).(*ChanObj)}
	case *IfaceV:
		if x.t == nil {
			return x
		}
		return &IfaceV{t: x.t, v: it.instValue(x.v)}
	case *FuncV:
		if len(x.binds) == 0 {
			return x
		}
		b := make([]Value, len(x.binds))
		for i := range b {
			b[i] = it.instValue(x.binds[i])
		}
		return &FuncV{fn: x.fn, binds: b, native: x.native}
	case TupleV:
		r := make(TupleV, len(x))
		for i := range r {
			r[i] = it.instValue(x[i])
		}
		return r
	}
	panic("internal: instValue of unknown value")
}

// poisonOrZero: struct/array globals that are initialised field-wise need a concrete skeleton, so
// only scalar-ish globals are poisoned as a whole.
func (it *Interp) poisonOrZero(t types.Type, why string) Value {
	switch under(t).(type) {
	case *types.Struct, *types.Array:
		return it.zeroSafe(t)
	}
	return Poison{why}
}

func (it *Interp) zeroSafe(t types.Type) (v Value) {
	defer func() {
		if r := recover(); r != nil {
			v = Poison{"zero value unsupported"}
		}
	}()
	return it.zero(t)
}

// ---------------------------------------------------------------- evaluation of operands

func (it *Interp) get(fr *frame, v ssa.Value) Value {
	switch x := v.(type) {
	case *ssa.Const:
		return it.constValue(x)
	case *ssa.Global:
		return &Ptr{cell: it.globalCell(x)}
	case *ssa.Function:
		return &FuncV{fn: x}
	case *ssa.Builtin:
		return &FuncV{native: "builtin:" + x.Name()}
	}
	r, ok := fr.env[v]
	if !ok {
		panic(fmt.Sprintf("internal: no value for %s (%T) in %s", v.Name(), v, fr.fn))
	}
	if _, isP := r.(Poison); isP && !fr.lenient {
		panic(unsupported("use of poison"))
	}
	return r
}

func (it *Interp) constValue(c *ssa.Const) Value {
	t := c.Type()
	if c.Value == nil {
		return it.zero(t)
	}
	if w, _, ok := intInfo(t); ok {
		if i, ok := constant.Int64Val(constant.ToInt(c.Value)); ok {
			return it.ts.BV(uint64(i), w)
		}
		u, _ := constant.Uint64Val(constant.ToInt(c.Value))
		return it.ts.BV(u, w)
	}
	switch {
	case isBool(t):
		return it.ts.Bool(constant.BoolVal(c.Value))
	case isString(t):
		return concStr(constant.StringVal(c.Value))
	case isFloat(t):
		f, _ := constant.Float64Val(c.Value)
		return FloatV{f, 64}
	case isComplex(t):
		re, _ := constant.Float64Val(constant.Real(c.Value))
		im, _ := constant.Float64Val(constant.Imag(c.Value))
		return ComplexV{complex(re, im)}
	}
	panic(unsupported("const of type " + t.String()))
}

// ---------------------------------------------------------------- calls

func (it *Interp) callFunc(fv *FuncV, args []Value, pos token.Pos) Value {
	if fv.fn == nil {
		if fv.native != "" {
			panic(unsupported("call of builtin as function value: " + fv.native))
		}
		it.goPanicf("call of nil func")
	}
	return it.call(fv.fn, args, fv.binds)
}

func (it *Interp) call(fn *ssa.Function, args []Value, binds []Value) (ret Value) {
	name := fn.String()
	if tgt, ok := it.h.redirect[name]; ok {
		fn = tgt
		name = fn.String()
	}
	if h, ok := intercepts[name]; ok && it.bypass[name] == 0 {
		it.stubsUsed[name] = true
		return h(it, fn, args)
	}
	if isIntrinsicName(fn.Name()) && fn.Signature.Recv() == nil {
		return it.intrinsic(fn, args)
	}
	if fn.Pkg != nil {
		ensureBuilt(fn.Pkg)
	}
	if fn.Blocks == nil {
		if fn.Blocks == nil {
			if h := prefixIntercept(name); h != nil {
				it.stubsUsed[name] = true
				return h(it, fn, args)
			}
			panic(unsupported("external function without body: " + name))
		}
	}
	if h := prefixIntercept(name); h != nil {
		it.stubsUsed[name] = true
		return h(it, fn, args)
	}
	if it.sum == nil && it.noSum == 0 && it.h.summarizable(name) {
		if v, ok := it.summarize(fn, args, binds); ok {
			return v
		}
	}
	it.depth++
	if it.depth > 400 {
		panic(&pathEnd{"unwind", "call depth > 400 in " + name})
	}
	defer func() { it.depth-- }()
	if _, seen := it.funcs[name]; !seen {
		n := 0
		for _, b := range fn.Blocks {
			n += len(b.Instrs)
		}
		it.funcs[name] = n
	}
	if traceCalls > 0 && it.depth <= traceCalls {
		fmt.Fprintf(os.Stderr, "%*sCALL %s (steps=%d)\n", it.depth, "", name, it.steps)
	}
	fr := &frame{fn: fn, env: make(map[ssa.Value]Value, 16), visits: map[*ssa.BasicBlock]int{}, caller: it.top}
	if len(args) != len(fn.Params) {
		panic(fmt.Sprintf("internal: arg count mismatch calling %s: %d vs %d", name, len(args), len(fn.Params)))
	}
	for i, p := range fn.Params {
		fr.env[p] = args[i]
	}
	for i, fvv := range fn.FreeVars {
		fr.env[fvv] = binds[i]
	}
	saveTop := it.top
	it.top = fr
	defer func() {
		it.top = saveTop
		if r := recover(); r != nil {
			if debugStack {
				if pe, ok := r.(*pathEnd); ok && pe.kind == "unsupported" && strings.Count(pe.msg, " <- ") < 10 {
					pe.msg += " <- " + name
				}
			}
			gp, ok := r.(*goPanic)
			if !ok {
				panic(r)
			}
			if debugStack && strings.Count(gp.msg, " <- ") < 10 {
				gp.msg += " <- " + name
			}
			fr.panicking = gp
			it.top = fr
			it.runDefers(fr)
			it.top = saveTop
			if fr.panicking != nil {
				panic(fr.panicking)
			}
			// recovered
			if fn.Recover != nil {
				ret = it.runFrom(fr, fn.Recover)
			} else {
				ret = it.zeroResults(fn)
			}
		}
	}()
	return it.run(fr)
}

func (it *Interp) zeroResults(fn *ssa.Function) Value {
	res := fn.Signature.Results()
	switch res.Len() {
	case 0:
		return nil
	case 1:
		return it.zero(res.At(0).Type())
	}
	return it.zero(res)
}

func (it *Interp) runDefers(fr *frame) {
	for len(fr.defers) > 0 {
		d := fr.defers[len(fr.defers)-1]
		fr.defers = fr.defers[:len(fr.defers)-1]
		it.invokeDeferred(fr, d)
	}
}

func (it *Interp) invokeDeferred(fr *frame, d deferred) {
	// a panic inside a deferred call replaces the current one
	defer func() {
		if r := recover(); r != nil {
			if gp, ok := r.(*goPanic); ok {
				fr.panicking = gp
				return
			}
			panic(r)
		}
	}()
	if d.invoke != nil {
		it.invokeMethod(d.recv, d.invoke, d.args)
		return
	}
	it.callFunc(d.fn.(*FuncV), d.args, token.NoPos)
}

func (it *Interp) invokeMethod(recv Value, m *types.Func, args []Value) Value {
	iv, ok := recv.(*IfaceV)
	if !ok || iv.t == nil {
		it.goPanicf("runtime error: invalid memory address or nil pointer dereference (method %s on nil interface)", m.Name())
	}
	fn := it.lookupMethod(iv.t, m.Pkg(), m.Name())
	if fn == nil {
		panic(unsupported(fmt.Sprintf("no method %s on %s", m.Name(), iv.t)))
	}
	all := append([]Value{iv.v}, args...)
	return it.call(fn, all, nil)
}

func (it *Interp) run(fr *frame) Value {
	return it.runFrom(fr, fr.fn.Blocks[0])
}

func (it *Interp) runFrom(fr *frame, blk *ssa.BasicBlock) Value {
	var prev *ssa.BasicBlock
	skipPhis := false
	mergedNow := false
	for {
		fr.visits[blk]++
		if fr.visits[blk] > it.h.cfg.Unwind {
			panic(&pathEnd{"unwind", fmt.Sprintf("block %d of %s visited more than %d times", blk.Index, fr.fn, it.h.cfg.Unwind)})
		}
		var next *ssa.BasicBlock
		for _, ins := range blk.Instrs {
			it.steps++
			if it.steps > it.h.cfg.MaxSteps {
				panic(&pathEnd{"budget", "step budget exceeded"})
			}
			switch x := ins.(type) {
			case *ssa.Phi:
				if skipPhis {
					continue
				}
				for i, p := range blk.Preds {
					if p == prev {
						fr.env[x] = it.get(fr, x.Edges[i])
						break
					}
				}
				continue
			case *ssa.Jump:
				next = blk.Succs[0]
			case *ssa.If:
				cv := it.get(fr, x.Cond)
				c, ok := cv.(*Term)
				if !ok {
					if fr.lenient {
						panic(unsupported("branch on poison in init"))
					}
					panic(fmt.Sprintf("internal: If on %T", cv))
				}
				if !c.IsConst() && !fr.lenient && !it.noMerge {
					if j := it.tryMerge(fr, blk, c); j != nil {
						next = j
						mergedNow = true
						break
					}
				}
				if it.branch(c) {
					next = blk.Succs[0]
				} else {
					next = blk.Succs[1]
				}
			case *ssa.Return:
				switch len(x.Results) {
				case 0:
					return nil
				case 1:
					return it.get(fr, x.Results[0])
				}
				r := make(TupleV, len(x.Results))
				for i, rv := range x.Results {
					r[i] = it.get(fr, rv)
				}
				return r
			case *ssa.Panic:
				v := it.get(fr, x.X)
				msg := "panic"
				if iv, ok := v.(*IfaceV); ok && iv.t != nil {
					msg = "panic: " + showValue(iv.v)
				}
				panic(&goPanic{val: v, msg: msg, pos: it.prog.Fset.Position(x.Pos()).String()})
			default:
				if fr.lenient {
					it.execLenient(fr, ins)
				} else {
					it.exec(fr, ins)
				}
				continue
			}
			break
		}
		if next == nil {
			panic("internal: block without terminator")
		}
		skipPhis = mergedNow // merged: phis of next were already assigned
		mergedNow = false
		prev, blk = blk, next
	}
}

func (it *Interp) execLenient(fr *frame, ins ssa.Instruction) {
	defer func() {
		if r := recover(); r != nil {
			why := ""
			switch x := r.(type) {
			case *pathEnd:
				if x.kind != "unsupported" && x.kind != "budget" && x.kind != "unwind" {
					panic(r)
				}
				why = x.msg
			case *goPanic:
				why = "panic in init: " + x.msg
			default:
				panic(r)
			}
			if v, ok := ins.(ssa.Value); ok {
				fr.env[v] = Poison{why}
			}
			it.top = fr
		}
	}()
	// do not recurse into other packages' init or user init functions
	if c, ok := ins.(*ssa.Call); ok {
		if f := c.Call.StaticCallee(); f != nil && (f.Name() == "init" || strings.HasPrefix(f.Name(), "init#")) && f.Signature.Recv() == nil {
			return
		}
	}
	// storing poison is allowed in lenient frames
	if st, ok := ins.(*ssa.Store); ok {
		v := fr.env[st.Val]
		if _, isP := v.(Poison); isP {
			if g, ok := st.Addr.(*ssa.Global); ok {
				it.globalCell(g).v = v
				return
			}
			return
		}
	}
	saved := it.steps
	it.exec(fr, ins)
	if it.steps-saved > 200000 {
		// nothing; budget is global
	}
}

func (it *Interp) exec(fr *frame, ins ssa.Instruction) {
	ts := it.ts
	switch x := ins.(type) {
	case *ssa.DebugRef:
	case *ssa.Alloc:
		et := x.Type().(*types.Pointer).Elem()
		fr.env[x] = &Ptr{cell: it.newCell(it.zero(et), et, x.Comment)}
	case *ssa.UnOp:
		fr.env[x] = it.unop(fr, x)
	case *ssa.BinOp:
		fr.env[x] = it.binop(x.Op, it.get(fr, x.X), it.get(fr, x.Y), x.X.Type(), x.Y.Type())
	case *ssa.Store:
		p := it.get(fr, x.Addr).(*Ptr)
		it.store(p, it.get(fr, x.Val))
	case *ssa.FieldAddr:
		p := it.get(fr, x.X).(*Ptr)
		if p.isNil() {
			it.goPanicf("runtime error: invalid memory address or nil pointer dereference (field %d of %s)", x.Field, x.X.Type())
		}
		fr.env[x] = subPtr(p, x.Field)
	case *ssa.Field:
		s, ok := it.get(fr, x.X).(*StructV)
		if !ok {
			panic(unsupported("Field of non-struct value"))
		}
		fr.env[x] = s.f[x.Field]
	case *ssa.IndexAddr:
		base := it.get(fr, x.X)
		idx := it.idx64(it.get(fr, x.Index).(*Term), x.Index.Type())
		scalarElem := false
		if !idx.IsConst() {
			et := x.Type().(*types.Pointer).Elem()
			if _, _, ok := intInfo(et); ok || isBool(et) {
				scalarElem = true
			}
		}
		switch b := base.(type) {
		case *SliceV:
			if scalarElem && b.len > 0 && it.symIndexInRange(idx, b.len) {
				fr.env[x] = &Ptr{cell: b.cell, sym: idx, symN: b.len, symOff: b.off}
				break
			}
			i := it.concIndex(idx, b.len, "slice")
			fr.env[x] = &Ptr{cell: b.cell, path: []int{b.off + i}}
		case *Ptr: // pointer to array
			if b.isNil() {
				it.goPanicf("nil array pointer")
			}
			n := int(under(x.X.Type().(*types.Pointer).Elem()).(*types.Array).Len())
			if scalarElem && n > 0 && b.sym == nil && it.symIndexInRange(idx, n) {
				fr.env[x] = &Ptr{cell: b.cell, path: b.path, sym: idx, symN: n}
				break
			}
			i := it.concIndex(idx, n, "array")
			fr.env[x] = subPtr(b, i)
		default:
			panic(fmt.Sprintf("internal: IndexAddr on %T", base))
		}
	case *ssa.Index:
		base := it.get(fr, x.X)
		idx := it.idx64(it.get(fr, x.Index).(*Term), x.Index.Type())
		switch b := base.(type) {
		case *ArrayV:
			if !idx.IsConst() && len(b.e) >= 8 {
				if _, isT := b.e[0].(*Term); isT && it.symIndexInRange(idx, len(b.e)) {
					fr.env[x] = it.loadSym(&Ptr{cell: &Cell{v: b}, sym: idx, symN: len(b.e)})
					break
				}
			}
			i := it.concIndex(idx, len(b.e), "array value")
			fr.env[x] = b.e[i]
		case *StrV:
			fr.env[x] = it.strIndex(b, idx)
		default:
			panic(fmt.Sprintf("internal: Index on %T", base))
		}
	case *ssa.Lookup:
		base := it.get(fr, x.X)
		switch b := base.(type) {
		case *StrV:
			fr.env[x] = it.strIndex(b, it.idx64(it.get(fr, x.Index).(*Term), x.Index.Type()))
		case *MapV:
			mt := under(x.X.Type()).(*types.Map)
			key := it.get(fr, x.Index)
			if mv, found, ok := it.mapLookupMerged(b, key, mt); ok {
				if x.CommaOk {
					fr.env[x] = TupleV{mv, found}
				} else {
					fr.env[x] = mv
				}
				break
			}
			v, ok := it.mapLookup(b, key, mt)
			if x.CommaOk {
				fr.env[x] = TupleV{v, ts.Bool(ok)}
			} else {
				fr.env[x] = v
			}
		default:
			panic(fmt.Sprintf("internal: Lookup on %T", base))
		}
	case *ssa.MapUpdate:
		m := it.get(fr, x.Map).(*MapV)
		if m.m == nil {
			it.goPanicf("assignment to entry in nil map")
		}
		mt := under(x.Map.Type()).(*types.Map)
		it.mapUpdate(m, it.get(fr, x.Key), it.get(fr, x.Value), mt)
	case *ssa.MakeMap:
		it.cellID++
		fr.env[x] = &MapV{m: &MapObj{id: it.cellID}}
	case *ssa.MakeSlice:
		l := int(it.concInt(it.get(fr, x.Len).(*Term)))
		c := int(it.concInt(it.get(fr, x.Cap).(*Term)))
		if l < 0 || c < l || c > 1<<20 {
			if c > 1<<20 {
				panic(unsupported("make of huge slice"))
			}
			it.goPanicf("runtime error: makeslice: len out of range")
		}
		et := under(x.Type()).(*types.Slice).Elem()
		arr := make([]Value, c)
		if c > 0 {
			z := it.zero(et)
			for i := range arr {
				arr[i] = z
			}
		}
		fr.env[x] = &SliceV{cell: it.newCell(&ArrayV{arr}, nil, "makeslice"), len: l, cap: c}
	case *ssa.MakeChan:
		it.cellID++
		n := int(it.concInt(it.get(fr, x.Size).(*Term)))
		fr.env[x] = &ChanV{ch: &ChanObj{cap: n, id: it.cellID}}
	case *ssa.Slice:
		fr.env[x] = it.sliceOp(fr, x)
	case *ssa.MakeInterface:
		fr.env[x] = &IfaceV{t: x.X.Type(), v: it.get(fr, x.X)}
	case *ssa.MakeClosure:
		b := make([]Value, len(x.Bindings))
		for i, bv := range x.Bindings {
			b[i] = it.get(fr, bv)
		}
		fr.env[x] = &FuncV{fn: x.Fn.(*ssa.Function), binds: b}
	case *ssa.ChangeType:
		fr.env[x] = it.get(fr, x.X)
	case *ssa.ChangeInterface:
		fr.env[x] = it.get(fr, x.X)
	case *ssa.Convert:
		fr.env[x] = it.convert(it.get(fr, x.X), x.X.Type(), x.Type())
	case *ssa.MultiConvert:
		fr.env[x] = it.convert(it.get(fr, x.X), x.X.Type(), x.Type())
	case *ssa.SliceToArrayPointer:
		s := it.get(fr, x.X).(*SliceV)
		n := int(under(x.Type().(*types.Pointer).Elem()).(*types.Array).Len())
		if s.len < n {
			it.goPanicf("slice to array pointer: len %d < %d", s.len, n)
		}
		if s.cell == nil {
			fr.env[x] = nilPtr()
		} else if s.off == 0 && len(s.cell.v.(*ArrayV).e) == n {
			fr.env[x] = &Ptr{cell: s.cell}
		} else {
			panic(unsupported("SliceToArrayPointer with offset"))
		}
	case *ssa.TypeAssert:
		fr.env[x] = it.typeAssert(x, it.get(fr, x.X))
	case *ssa.Extract:
		fr.env[x] = it.get(fr, x.Tuple).(TupleV)[x.Index]
	case *ssa.Range:
		fr.env[x] = it.makeIter(it.get(fr, x.X))
	case *ssa.Next:
		fr.env[x] = it.iterNext(it.get(fr, x.Iter).(*MapIter), x)
	case *ssa.Call:
		fr.env[x] = it.doCall(fr, &x.Call, x.Pos())
	case *ssa.Defer:
		c := &x.Call
		d := deferred{}
		for _, a := range c.Args {
			d.args = append(d.args, it.get(fr, a))
		}
		if c.IsInvoke() {
			d.invoke = c.Method
			d.recv = it.get(fr, c.Value)
		} else {
			d.fn = it.get(fr, c.Value)
		}
		fr.defers = append(fr.defers, d)
	case *ssa.RunDefers:
		it.runDefers(fr)
		if fr.panicking != nil {
			gp := fr.panicking
			fr.panicking = nil
			panic(gp)
		}
	case *ssa.Go:
		c := &x.Call
		if f := c.StaticCallee(); f != nil && it.h.cfg.skipGo(f.String()) {
			return
		}
		if f := c.StaticCallee(); f != nil && it.h.cfg.eagerGo(f.String()) {
			it.elastic++
			it.doCall(fr, c, x.Pos())
			it.elastic--
			return
		}
		panic(unsupported("go statement: " + x.String()))
	case *ssa.Send:
		ch := it.get(fr, x.Chan).(*ChanV)
		if ch.ch == nil {
			panic(unsupported("send on nil channel"))
		}
		if ch.ch.closed {
			it.goPanicf("send on closed channel")
		}
		if len(ch.ch.buf) >= ch.ch.cap && it.elastic == 0 {
			panic(unsupported("blocking channel send"))
		}
		ch.ch.buf = append(ch.ch.buf, it.get(fr, x.X))
	case *ssa.Select:
		fr.env[x] = it.selectOp(fr, x)
	default:
		panic(unsupported(fmt.Sprintf("instruction %T", ins)))
	}
}

func (it *Interp) doCall(fr *frame, c *ssa.CallCommon, pos token.Pos) Value {
	args := make([]Value, 0, len(c.Args)+1)
	if c.IsInvoke() {
		recv := it.get(fr, c.Value)
		for _, a := range c.Args {
			args = append(args, it.get(fr, a))
		}
		return it.invokeMethod(recv, c.Method, args)
	}
	for _, a := range c.Args {
		args = append(args, it.get(fr, a))
	}
	switch f := c.Value.(type) {
	case *ssa.Function:
		return it.call(f, args, nil)
	case *ssa.Builtin:
		return it.builtin(fr, f, c, args)
	}
	fv, ok := it.get(fr, c.Value).(*FuncV)
	if !ok {
		panic(unsupported("call of non-function value"))
	}
	return it.callFunc(fv, args, pos)
}

// ---------------------------------------------------------------- operators

func (it *Interp) unop(fr *frame, x *ssa.UnOp) Value {
	v := it.get(fr, x.X)
	ts := it.ts
	switch x.Op {
	case token.MUL:
		return it.load(v.(*Ptr))
	case token.NOT:
		return ts.Not(v.(*Term))
	case token.SUB:
		switch t := v.(type) {
		case *Term:
			return ts.Neg(t)
		case FloatV:
			return FloatV{-t.f, t.w}
		}
	case token.XOR:
		return ts.BNot(v.(*Term))
	case token.ARROW:
		ch := v.(*ChanV)
		if ch.ch == nil {
			panic(unsupported("receive on nil channel"))
		}
		et := under(x.X.Type()).(*types.Chan).Elem()
		var val Value
		ok := true
		if len(ch.ch.buf) > 0 {
			val = ch.ch.buf[0]
			ch.ch.buf = ch.ch.buf[1:]
		} else if ch.ch.closed {
			val = it.zero(et)
			ok = false
		} else {
			panic(unsupported("blocking channel receive"))
		}
		if x.CommaOk {
			return TupleV{val, ts.Bool(ok)}
		}
		return val
	}
	panic(unsupported("unop " + x.Op.String()))
}

func (it *Interp) binop(op token.Token, a, b Value, ta, tb types.Type) Value {
	ts := it.ts
	switch x := a.(type) {
	case *Term:
		y, ok := b.(*Term)
		if !ok {
			panic(fmt.Sprintf("internal: binop term vs %T", b))
		}
		if x.w == 0 { // bool
			switch op {
			case token.EQL:
				return ts.Eq(x, y)
			case token.NEQ:
				return ts.Not(ts.Eq(x, y))
			case token.AND, token.LAND:
				return ts.And(x, y)
			case token.OR, token.LOR:
				return ts.Or(x, y)
			}
			panic(unsupported("bool binop " + op.String()))
		}
		_, signed, _ := intInfo(ta)
		switch op {
		case token.ADD:
			return ts.bin(OpAdd, x, y)
		case token.SUB:
			return ts.bin(OpSub, x, y)
		case token.MUL:
			return ts.bin(OpMul, x, y)
		case token.QUO, token.REM:
			if !y.IsConst() || y.cval == 0 {
				if it.branch(ts.Eq(y, ts.BV(0, y.w))) {
					it.goPanicf("runtime error: integer divide by zero")
				}
			}
			if op == token.QUO {
				if signed {
					return ts.bin(OpSDiv, x, y)
				}
				return ts.bin(OpUDiv, x, y)
			}
			if signed {
				return ts.bin(OpSRem, x, y)
			}
			return ts.bin(OpURem, x, y)
		case token.AND:
			return ts.bin(OpBAnd, x, y)
		case token.OR:
			return ts.bin(OpBOr, x, y)
		case token.XOR:
			return ts.bin(OpBXor, x, y)
		case token.AND_NOT:
			return ts.bin(OpBAnd, x, ts.BNot(y))
		case token.SHL, token.SHR:
			// shift count: own type
			_, csigned, _ := intInfo(tb)
			cnt := y
			if csigned {
				if !cnt.IsConst() {
					if it.branch(ts.SLt(cnt, ts.BV(0, cnt.w))) {
						it.goPanicf("runtime error: negative shift amount")
					}
				} else if sext(cnt.cval, cnt.w) < 0 {
					it.goPanicf("runtime error: negative shift amount")
				}
			}
			// bring count to x's width with saturation
			var c2 *Term
			if cnt.w > x.w {
				big := ts.Not(ts.ULt(cnt, ts.BV(uint64(x.w), cnt.w)))
				c2 = ts.Ite(big, ts.BV(uint64(x.w), x.w), ts.Extract(cnt, x.w-1, 0))
			} else {
				c2 = ts.ZExt(cnt, x.w)
			}
			if op == token.SHL {
				return ts.bin(OpShl, x, c2)
			}
			if signed {
				return ts.bin(OpAShr, x, c2)
			}
			return ts.bin(OpLShr, x, c2)
		case token.EQL:
			return ts.Eq(x, y)
		case token.NEQ:
			return ts.Not(ts.Eq(x, y))
		case token.LSS:
			if signed {
				return ts.SLt(x, y)
			}
			return ts.ULt(x, y)
		case token.LEQ:
			if signed {
				return ts.SLe(x, y)
			}
			return ts.ULe(x, y)
		case token.GTR:
			if signed {
				return ts.SLt(y, x)
			}
			return ts.ULt(y, x)
		case token.GEQ:
			if signed {
				return ts.SLe(y, x)
			}
			return ts.ULe(y, x)
		}
	case FloatV:
		y := b.(FloatV)
		switch op {
		case token.ADD:
			return FloatV{x.f + y.f, x.w}
		case token.SUB:
			return FloatV{x.f - y.f, x.w}
		case token.MUL:
			return FloatV{x.f * y.f, x.w}
		case token.QUO:
			return FloatV{x.f / y.f, x.w}
		case token.EQL:
			return ts.Bool(x.f == y.f)
		case token.NEQ:
			return ts.Bool(x.f != y.f)
		case token.LSS:
			return ts.Bool(x.f < y.f)
		case token.LEQ:
			return ts.Bool(x.f <= y.f)
		case token.GTR:
			return ts.Bool(x.f > y.f)
		case token.GEQ:
			return ts.Bool(x.f >= y.f)
		}
	case *StrV:
		y := b.(*StrV)
		switch op {
		case token.ADD:
			return it.strConcat(x, y)
		case token.EQL:
			return it.strEq(x, y)
		case token.NEQ:
			return ts.Not(it.strEq(x, y))
		case token.LSS:
			return it.strLess(x, y, false)
		case token.LEQ:
			return it.strLess(x, y, true)
		case token.GTR:
			return it.strLess(y, x, false)
		case token.GEQ:
			return it.strLess(y, x, true)
		}
	default:
		switch op {
		case token.EQL:
			return it.eqValue(a, b, ta)
		case token.NEQ:
			return ts.Not(it.eqValue(a, b, ta))
		}
	}
	panic(unsupported(fmt.Sprintf("binop %s on %T", op, a)))
}

// eqValue gives the Go == of two values as a Bool term.
func (it *Interp) eqValue(a, b Value, t types.Type) *Term {
	ts := it.ts
	switch x := a.(type) {
	case *Term:
		return ts.Eq(x, b.(*Term))
	case FloatV:
		return ts.Bool(x.f == b.(FloatV).f)
	case *StrV:
		return it.strEq(x, b.(*StrV))
	case *Ptr:
		y := b.(*Ptr)
		if x.isNil() || y.isNil() {
			return ts.Bool(x.isNil() && y.isNil())
		}
		if x.cell != y.cell || len(x.path) != len(y.path) {
			return ts.Bool(false)
		}
		for i := range x.path {
			if x.path[i] != y.path[i] {
				return ts.Bool(false)
			}
		}
		return ts.Bool(true)
	case *StructV:
		y := b.(*StructV)
		r := ts.Bool(true)
		for i := range x.f {
			r = ts.And(r, it.eqValue(x.f[i], y.f[i], nil))
		}
		return r
	case *ArrayV:
		y := b.(*ArrayV)
		r := ts.Bool(true)
		for i := range x.e {
			r = ts.And(r, it.eqValue(x.e[i], y.e[i], nil))
		}
		return r
	case *IfaceV:
		y, ok := b.(*IfaceV)
		if !ok {
			panic(fmt.Sprintf("internal: iface == %T", b))
		}
		if x.t == nil || y.t == nil {
			return ts.Bool(x.t == nil && y.t == nil)
		}
		if !types.Identical(x.t, y.t) {
			return ts.Bool(false)
		}
		if !types.Comparable(x.t) {
			it.goPanicf("runtime error: comparing uncomparable type %s", x.t)
		}
		return it.eqValue(x.v, y.v, x.t)
	case *MapV:
		y := b.(*MapV)
		return ts.Bool(x.m == nil && y.m == nil) // only nil comparisons are legal
	case *SliceV:
		y := b.(*SliceV)
		return ts.Bool(x.cell == nil && y.cell == nil)
	case *FuncV:
		y := b.(*FuncV)
		return ts.Bool(x.fn == nil && x.native == "" && y.fn == nil && y.native == "")
	case *ChanV:
		return ts.Bool(x.ch == b.(*ChanV).ch)
	case nil:
		return ts.Bool(b == nil)
	}
	panic(unsupported(fmt.Sprintf("== on %T", a)))
}

func (it *Interp) convert(v Value, from, to types.Type) Value {
	ts := it.ts
	fu, tu := under(from), under(to)
	if fw, fsigned, ok := intInfo(fu); ok {
		x := v.(*Term)
		if tw, _, ok2 := intInfo(tu); ok2 {
			switch {
			case tw == fw:
				return x
			case tw < fw:
				return ts.Extract(x, tw-1, 0)
			case fsigned:
				return ts.SExt(x, tw)
			default:
				return ts.ZExt(x, tw)
			}
		}
		if isString(tu) { // string(rune)
			if !x.IsConst() {
				panic(unsupported("string(symbolic rune)"))
			}
			return concStr(string(rune(sext(x.cval, fw))))
		}
		if isFloat(tu) {
			if !x.IsConst() {
				panic(unsupported("float(symbolic int)"))
			}
			if fsigned {
				return FloatV{float64(sext(x.cval, fw)), 64}
			}
			return FloatV{float64(x.cval), 64}
		}
		if b, ok := tu.(*types.Basic); ok && b.Kind() == types.UnsafePointer {
			panic(unsupported("unsafe.Pointer conversion"))
		}
	}
	if isFloat(fu) {
		f := v.(FloatV)
		if tw, tsigned, ok := intInfo(tu); ok {
			if tsigned {
				return ts.BV(uint64(int64(f.f)), tw)
			}
			return ts.BV(uint64(f.f), tw)
		}
		if isFloat(tu) {
			if b := tu.(*types.Basic); b.Kind() == types.Float32 {
				return FloatV{float64(float32(f.f)), 32}
			}
			return FloatV{f.f, 64}
		}
	}
	if isString(fu) {
		s := v.(*StrV)
		if sl, ok := tu.(*types.Slice); ok {
			eb := under(sl.Elem()).(*types.Basic)
			if eb.Kind() == types.Uint8 {
				bs := s.bytes(ts)
				arr := make([]Value, len(bs))
				for i, b := range bs {
					arr[i] = b
				}
				return &SliceV{cell: it.newCell(&ArrayV{arr}, nil, "[]byte(str)"), len: len(arr), cap: len(arr)}
			}
			if eb.Kind() == types.Int32 {
				if !s.isConc {
					panic(unsupported("[]rune(symbolic string)"))
				}
				rs := []rune(s.conc)
				arr := make([]Value, len(rs))
				for i, r := range rs {
					arr[i] = ts.BV(uint64(r), 32)
				}
				return &SliceV{cell: it.newCell(&ArrayV{arr}, nil, "[]rune(str)"), len: len(arr), cap: len(arr)}
			}
		}
		if isString(tu) {
			return s
		}
	}
	if sl, ok := fu.(*types.Slice); ok && isString(tu) {
		s := v.(*SliceV)
		eb := under(sl.Elem()).(*types.Basic)
		if eb.Kind() == types.Uint8 {
			return strFromBytes(it.sliceTerms(s))
		}
		if eb.Kind() == types.Int32 {
			var sb strings.Builder
			for _, t := range it.sliceTerms(s) {
				if !t.IsConst() {
					panic(unsupported("string([]rune symbolic)"))
				}
				sb.WriteRune(rune(sext(t.cval, 32)))
			}
			return concStr(sb.String())
		}
	}
	if _, ok := fu.(*types.Pointer); ok {
		if b, ok := tu.(*types.Basic); ok && b.Kind() == types.UnsafePointer {
			return v
		}
	}
	if b, ok := fu.(*types.Basic); ok && b.Kind() == types.UnsafePointer {
		if _, ok := tu.(*types.Pointer); ok {
			return v
		}
	}
	panic(unsupported(fmt.Sprintf("convert %s -> %s", from, to)))
}

func (it *Interp) sliceTerms(s *SliceV) []*Term {
	r := make([]*Term, s.len)
	if s.len == 0 {
		return r
	}
	arr := s.cell.v.(*ArrayV)
	for i := 0; i < s.len; i++ {
		t, ok := arr.e[s.off+i].(*Term)
		if !ok {
			panic("internal: sliceTerms on non-scalar slice")
		}
		r[i] = t
	}
	return r
}

func (it *Interp) sliceVals(s *SliceV) []Value {
	if s.len == 0 {
		return nil
	}
	arr := s.cell.v.(*ArrayV)
	r := make([]Value, s.len)
	copy(r, arr.e[s.off:s.off+s.len])
	return r
}

func (it *Interp) newSlice(vals []Value) *SliceV {
	cp := make([]Value, len(vals))
	copy(cp, vals)
	return &SliceV{cell: it.newCell(&ArrayV{cp}, nil, "slice"), len: len(cp), cap: len(cp)}
}

func (it *Interp) bytesToSlice(b []*Term) *SliceV {
	arr := make([]Value, len(b))
	for i, t := range b {
		arr[i] = t
	}
	return &SliceV{cell: it.newCell(&ArrayV{arr}, nil, "bytes"), len: len(arr), cap: len(arr)}
}

func (it *Interp) sliceOp(fr *frame, x *ssa.Slice) Value {
	base := it.get(fr, x.X)
	geti := func(v ssa.Value, def int) int {
		if v == nil {
			return def
		}
		t := it.get(fr, v).(*Term)
		u := it.concInt(t)
		return int(int64(u))
	}
	switch b := base.(type) {
	case *StrV:
		n := b.Len()
		lo := geti(x.Low, 0)
		hi := geti(x.High, n)
		if lo < 0 || hi < lo || hi > n {
			it.goPanicf("runtime error: slice bounds out of range [%d:%d] with length %d", lo, hi, n)
		}
		if b.isConc {
			return concStr(b.conc[lo:hi])
		}
		return strFromBytesKeep(b.b[lo:hi])
	case *SliceV:
		lo := geti(x.Low, 0)
		hi := geti(x.High, b.len)
		mx := geti(x.Max, b.cap)
		if lo < 0 || hi < lo || hi > mx || mx > b.cap {
			it.goPanicf("runtime error: slice bounds out of range [%d:%d:%d] with capacity %d", lo, hi, mx, b.cap)
		}
		if b.cell == nil {
			return &SliceV{}
		}
		return &SliceV{cell: b.cell, off: b.off + lo, len: hi - lo, cap: mx - lo}
	case *Ptr: // *array
		if b.isNil() {
			it.goPanicf("slice of nil array pointer")
		}
		n := int(under(x.X.Type().(*types.Pointer).Elem()).(*types.Array).Len())
		lo := geti(x.Low, 0)
		hi := geti(x.High, n)
		mx := geti(x.Max, n)
		if lo < 0 || hi < lo || hi > mx || mx > n {
			it.goPanicf("runtime error: slice bounds out of range (array)")
		}
		if len(b.path) != 0 {
			panic(unsupported("slice of nested array"))
		}
		return &SliceV{cell: b.cell, off: lo, len: hi - lo, cap: mx - lo}
	}
	panic(fmt.Sprintf("internal: Slice on %T", base))
}

func strFromBytesKeep(b []*Term) *StrV {
	return strFromBytes(b)
}

func (it *Interp) typeAssert(x *ssa.TypeAssert, v Value) Value {
	iv, ok := v.(*IfaceV)
	if !ok {
		panic(fmt.Sprintf("internal: TypeAssert on %T", v))
	}
	okb := false
	var res Value
	if iv.t != nil {
		if types.IsInterface(x.AssertedType) {
			if types.AssignableTo(iv.t, x.AssertedType) || types.Implements(iv.t, under(x.AssertedType).(*types.Interface)) {
				okb = true
				res = iv
			}
		} else if types.Identical(iv.t, x.AssertedType) {
			okb = true
			res = iv.v
		}
	}
	if x.CommaOk {
		if !okb {
			res = it.zero(x.AssertedType)
		}
		return TupleV{res, it.ts.Bool(okb)}
	}
	if !okb {
		it.goPanicf("interface conversion: interface is %v, not %s", iv.t, x.AssertedType)
	}
	return res
}

// ---------------------------------------------------------------- maps

func (it *Interp) keyEq(a, b Value, kt types.Type) *Term {
	return it.eqValue(a, b, kt)
}

func (it *Interp) mapFind(m *MapV, k Value, mt *types.Map) int {
	if m.m == nil || len(m.m.entries) == 0 {
		return -1
	}
	n := len(m.m.entries)
	alts := make([]*Term, n+1)
	none := it.ts.Bool(true)
	for i, e := range m.m.entries {
		alts[i] = it.keyEq(e.k, k, mt.Key())
		if alts[i].IsTrue() {
			return i
		}
		none = it.ts.And(none, it.ts.Not(alts[i]))
	}
	alts[n] = none
	r := it.choose(alts, true)
	if r == n {
		return -1
	}
	return r
}

// mapLookupMerged answers a read without forking when every stored value is a scalar term (or an
// empty struct): value = ite chain over key equalities. ok=false result means "not applicable".
func (it *Interp) mapLookupMerged(m *MapV, k Value, mt *types.Map) (Value, *Term, bool) {
	if m.m == nil || len(m.m.entries) == 0 {
		return nil, nil, false
	}
	ts := it.ts
	zero := it.zero(mt.Elem())
	var acc Value = zero
	found := ts.Bool(false)
	_, zt := zero.(*Term)
	zs, zstruct := zero.(*StructV)
	if !zt && !(zstruct && len(zs.f) == 0) {
		return nil, nil, false
	}
	for i := len(m.m.entries) - 1; i >= 0; i-- {
		e := m.m.entries[i]
		eq := it.keyEq(e.k, k, mt.Key())
		if zt {
			ev, ok := e.v.(*Term)
			if !ok || ev.op == OpNum {
				return nil, nil, false
			}
			acc = ts.Ite(eq, ev, acc.(*Term))
		}
		found = ts.Or(found, eq)
	}
	return acc, found, true
}

func (it *Interp) mapLookup(m *MapV, k Value, mt *types.Map) (Value, bool) {
	i := it.mapFind(m, k, mt)
	if i < 0 {
		return it.zero(mt.Elem()), false
	}
	return m.m.entries[i].v, true
}

func (it *Interp) mapUpdate(m *MapV, k, v Value, mt *types.Map) {
	if it.sum != nil && m.m.id <= it.sum.startCell {
		panic(specAbort{})
	}
	i := it.mapFind(m, k, mt)
	if i < 0 {
		m.m.entries = append(m.m.entries, mapEntry{k, v})
		return
	}
	m.m.entries[i].v = v
}

func (it *Interp) mapDelete(m *MapV, k Value, mt *types.Map) {
	if m.m == nil {
		return
	}
	if it.sum != nil && m.m.id <= it.sum.startCell {
		panic(specAbort{})
	}
	i := it.mapFind(m, k, mt)
	if i < 0 {
		return
	}
	ne := make([]mapEntry, 0, len(m.m.entries)-1)
	ne = append(ne, m.m.entries[:i]...)
	ne = append(ne, m.m.entries[i+1:]...)
	m.m.entries = ne
}

func sameKey(a, b Value) bool {
	switch x := a.(type) {
	case *Term:
		y, ok := b.(*Term)
		return ok && x == y
	case *StrV:
		y, ok := b.(*StrV)
		if !ok {
			return false
		}
		if x.isConc != y.isConc {
			return false
		}
		if x.isConc {
			return x.conc == y.conc
		}
		if len(x.b) != len(y.b) {
			return false
		}
		for i := range x.b {
			if x.b[i] != y.b[i] {
				return false
			}
		}
		return true
	case *StructV:
		y, ok := b.(*StructV)
		if !ok || len(x.f) != len(y.f) {
			return false
		}
		for i := range x.f {
			if !sameKey(x.f[i], y.f[i]) {
				return false
			}
		}
		return true
	case *ArrayV:
		y, ok := b.(*ArrayV)
		if !ok || len(x.e) != len(y.e) {
			return false
		}
		for i := range x.e {
			if !sameKey(x.e[i], y.e[i]) {
				return false
			}
		}
		return true
	case *Ptr:
		y, ok := b.(*Ptr)
		if !ok {
			return false
		}
		if x.isNil() || y.isNil() {
			return x.isNil() && y.isNil()
		}
		if x.cell != y.cell || len(x.path) != len(y.path) {
			return false
		}
		for i := range x.path {
			if x.path[i] != y.path[i] {
				return false
			}
		}
		return true
	case *IfaceV:
		y, ok := b.(*IfaceV)
		if !ok {
			return false
		}
		if x.t == nil || y.t == nil {
			return x.t == nil && y.t == nil
		}
		return types.Identical(x.t, y.t) && sameKey(x.v, y.v)
	case FloatV:
		y, ok := b.(FloatV)
		return ok && x.f == y.f
	}
	return false
}

func (it *Interp) makeIter(v Value) *MapIter {
	switch x := v.(type) {
	case *MapV:
		mi := &MapIter{}
		if x.m == nil {
			return mi
		}
		n := len(x.m.entries)
		order := it.iterOrder(n)
		for _, i := range order {
			mi.keys = append(mi.keys, x.m.entries[i].k)
		}
		mi.vals = []Value{x}
		return mi
	case *StrV:
		return &MapIter{str: x}
	}
	panic(fmt.Sprintf("internal: Range on %T", v))
}

// iterOrder picks the iteration order of a map with n entries according to the harness's
// map-order mode: 0 insertion order; 1 insertion + reversed; 2 all rotations + reversed;
// 3 all permutations (n <= 4), else as 2.
func (it *Interp) iterOrder(n int) []int {
	id := make([]int, n)
	for i := range id {
		id[i] = i
	}
	if n <= 1 || it.mapOrder == 0 || it.initDepth > 0 || it.spec > 0 || it.sum != nil {
		return id
	}
	if fs := it.h.cfg.MapOrderFuncs; len(fs) > 0 {
		ok := false
		if it.top != nil {
			name := it.top.fn.String()
			for _, f := range fs {
				if strings.Contains(name, f) {
					ok = true
				}
			}
		}
		if !ok {
			return id
		}
	}
	switch {
	case it.mapOrder == 1:
		if it.freeChoice(2) == 1 {
			for i := range id {
				id[i] = n - 1 - i
			}
		}
		return id
	case it.mapOrder == 3 && n <= 4:
		perms := permutations(n)
		return perms[it.freeChoice(len(perms))]
	default:
		var orders [][]int
		seen := map[string]bool{}
		for k := 0; k < 2*n; k++ {
			rot := k % n
			r := make([]int, n)
			for i := range r {
				r[i] = (i + rot) % n
			}
			if k >= n {
				for i, j := 0, n-1; i < j; i, j = i+1, j-1 {
					r[i], r[j] = r[j], r[i]
				}
			}
			key := fmt.Sprint(r)
			if !seen[key] {
				seen[key] = true
				orders = append(orders, r)
			}
		}
		return orders[it.freeChoice(len(orders))]
	}
}

func permutations(n int) [][]int {
	var res [][]int
	var rec func(cur []int, used []bool)
	rec = func(cur []int, used []bool) {
		if len(cur) == n {
			res = append(res, append([]int{}, cur...))
			return
		}
		for i := 0; i < n; i++ {
			if !used[i] {
				used[i] = true
				rec(append(cur, i), used)
				used[i] = false
			}
		}
	}
	rec(nil, make([]bool, n))
	return res
}

func (it *Interp) iterNext(mi *MapIter, x *ssa.Next) Value {
	ts := it.ts
	if x.IsString {
		s := mi.str
		if mi.spos >= s.Len() {
			return TupleV{ts.Bool(false), ts.BV(0, 64), ts.BV(0, 32)}
		}
		if s.isConc {
			r, sz := decodeRune(s.conc[mi.spos:])
			pos := mi.spos
			mi.spos += sz
			return TupleV{ts.Bool(true), ts.BV(uint64(pos), 64), ts.BV(uint64(r), 32)}
		}
		b := s.b[mi.spos]
		if b.op == OpNum {
			panic(unsupported("range over string with Num segment"))
		}
		if !b.IsConst() {
			// only ASCII explored for symbolic bytes
			if !it.branch(ts.ULt(b, ts.BV(0x80, 8))) {
				panic(unsupported("non-ASCII symbolic byte in string range"))
			}
		} else if b.cval >= 0x80 {
			panic(unsupported("non-ASCII byte in partially symbolic string range"))
		}
		pos := mi.spos
		mi.spos++
		return TupleV{ts.Bool(true), ts.BV(uint64(pos), 64), ts.ZExt(b, 32)}
	}
	mt := under(x.Iter.(*ssa.Range).X.Type()).(*types.Map)
	for mi.pos < len(mi.keys) {
		k := mi.keys[mi.pos]
		mi.pos++
		m := mi.vals[0].(*MapV)
		for _, e := range m.m.entries {
			if sameKey(e.k, k) {
				return TupleV{ts.Bool(true), k, e.v}
			}
		}
	}
	return TupleV{ts.Bool(false), it.zero(mt.Key()), it.zero(mt.Elem())}
}

func decodeRune(s string) (rune, int) {
	for i, r := range s {
		_ = i
		n := len(string(r))
		if r == 0xFFFD {
			// invalid byte or literal U+FFFD
			if len(s) >= 3 && s[:3] == "\xef\xbf\xbd" {
				return r, 3
			}
			return r, 1
		}
		return r, n
	}
	return 0, 0
}

func (it *Interp) selectOp(fr *frame, x *ssa.Select) Value {
	// Only non-blocking selects and selects with a ready buffered channel / closed channel are supported.
	ts := it.ts
	for i, st := range x.States {
		ch := it.get(fr, st.Chan).(*ChanV)
		if ch.ch == nil {
			continue
		}
		if st.Dir == types.RecvOnly {
			if len(ch.ch.buf) > 0 || ch.ch.closed {
				r := TupleV{ts.BV(uint64(i), 64), ts.Bool(len(ch.ch.buf) > 0)}
				for j, st2 := range x.States {
					if st2.Dir == types.RecvOnly {
						et := under(st2.Chan.Type()).(*types.Chan).Elem()
						if j == i && len(ch.ch.buf) > 0 {
							r = append(r, ch.ch.buf[0])
							ch.ch.buf = ch.ch.buf[1:]
						} else {
							r = append(r, it.zero(et))
						}
					}
				}
				return r
			}
		} else {
			if !ch.ch.closed && (len(ch.ch.buf) < ch.ch.cap || it.elastic > 0) {
				ch.ch.buf = append(ch.ch.buf, it.get(fr, st.Send))
				r := TupleV{ts.BV(uint64(i), 64), ts.Bool(false)}
				for _, st2 := range x.States {
					if st2.Dir == types.RecvOnly {
						r = append(r, it.zero(under(st2.Chan.Type()).(*types.Chan).Elem()))
					}
				}
				return r
			}
		}
	}
	if !x.Blocking {
		r := TupleV{ts.BV(^uint64(0), 64), ts.Bool(false)}
		for _, st2 := range x.States {
			if st2.Dir == types.RecvOnly {
				r = append(r, it.zero(under(st2.Chan.Type()).(*types.Chan).Elem()))
			}
		}
		return r
	}
	panic(unsupported("blocking select with no ready case"))
}

var _ = math.MaxInt

// lookupMethod returns the concrete method of t named name (nil if there is none).
func (it *Interp) lookupMethod(t types.Type, pkg *types.Package, name string) *ssa.Function {
	buildMu.Lock()
	defer buildMu.Unlock()
	sel := it.prog.MethodSets.MethodSet(t).Lookup(pkg, name)
	if sel == nil {
		return nil
	}
	return it.prog.MethodValue(sel)
}

// ---------------------------------------------------------------- if-conversion of pure regions

type specEdge struct {
	pred  *ssa.BasicBlock
	guard *Term
}

// tryMerge handles short-circuit conditions and small pure diamonds without forking: both sides
// of the branch are evaluated speculatively (only side-effect-free instructions, no decisions), and
// the phis of the join block become ite terms. Returns the join block, or nil to fork as usual.
func (it *Interp) tryMerge(fr *frame, blk *ssa.BasicBlock, c *Term) *ssa.BasicBlock {
	T, F := blk.Succs[0], blk.Succs[1]
	J := findJoin(T, F)
	if J == nil || len(J.Preds) < 2 {
		return nil
	}
	var edges []specEdge
	ok := false
	saveSteps := it.steps
	func() {
		it.spec++
		defer func() {
			it.spec--
			if r := recover(); r != nil {
				switch r.(type) {
				case specAbort, *goPanic:
					ok = false
					return
				case *pathEnd:
					if r.(*pathEnd).kind == "unsupported" {
						ok = false
						return
					}
				}
				panic(r)
			}
		}()
		ok = it.specRegion(fr, T, blk, c, J, 0, &edges) && it.specRegion(fr, F, blk, it.ts.Not(c), J, 0, &edges)
	}()
	it.top = fr
	if !ok || len(edges) == 0 {
		it.steps = saveSteps
		return nil
	}
	// assign phis of J
	type asg struct {
		phi *ssa.Phi
		v   Value
	}
	var asgs []asg
	for _, ins := range J.Instrs {
		phi, isPhi := ins.(*ssa.Phi)
		if !isPhi {
			break
		}
		var acc Value
		for k := len(edges) - 1; k >= 0; k-- {
			e := edges[k]
			var ev Value
			found := false
			for i, p := range J.Preds {
				if p == e.pred {
					ev = it.get(fr, phi.Edges[i])
					found = true
					break
				}
			}
			if !found {
				return nil
			}
			if k == len(edges)-1 {
				acc = ev
				continue
			}
			at, ok1 := acc.(*Term)
			et, ok2 := ev.(*Term)
			if ok1 && ok2 && at.w == et.w && at.op != OpNum && et.op != OpNum {
				acc = it.ts.Ite(e.guard, et, at)
				continue
			}
			if !sameKey(acc, ev) {
				return nil
			}
		}
		asgs = append(asgs, asg{phi, acc})
	}
	for _, a := range asgs {
		fr.env[a.phi] = a.v
	}
	return J
}

// findJoin looks for the nearest block where short pure paths from t and f meet.
func findJoin(t, f *ssa.BasicBlock) *ssa.BasicBlock {
	reach := func(b *ssa.BasicBlock) []*ssa.BasicBlock {
		var out []*ssa.BasicBlock
		seen := map[*ssa.BasicBlock]bool{}
		frontier := []*ssa.BasicBlock{b}
		for d := 0; d < 5 && len(frontier) > 0; d++ {
			var nf []*ssa.BasicBlock
			for _, x := range frontier {
				if seen[x] {
					continue
				}
				seen[x] = true
				out = append(out, x)
				if len(x.Instrs) > 12 {
					continue
				}
				for _, s := range x.Succs {
					nf = append(nf, s)
				}
			}
			frontier = nf
		}
		return out
	}
	rt := reach(t)
	rf := map[*ssa.BasicBlock]bool{}
	for _, b := range reach(f) {
		rf[b] = true
	}
	for _, b := range rt {
		if rf[b] && len(b.Preds) >= 2 {
			return b
		}
	}
	return nil
}

func (it *Interp) specRegion(fr *frame, b, pred *ssa.BasicBlock, g *Term, J *ssa.BasicBlock, depth int, edges *[]specEdge) bool {
	if b == J {
		*edges = append(*edges, specEdge{pred, g})
		return true
	}
	if len(b.Preds) != 1 || depth > 4 || len(b.Instrs) > 12 {
		return false
	}
	for _, ins := range b.Instrs {
		switch x := ins.(type) {
		case *ssa.Jump:
			return it.specRegion(fr, b.Succs[0], b, g, J, depth+1, edges)
		case *ssa.If:
			c, ok := it.get(fr, x.Cond).(*Term)
			if !ok {
				return false
			}
			if c.IsConst() {
				if c.cval == 1 {
					return it.specRegion(fr, b.Succs[0], b, g, J, depth+1, edges)
				}
				return it.specRegion(fr, b.Succs[1], b, g, J, depth+1, edges)
			}
			return it.specRegion(fr, b.Succs[0], b, it.ts.And(g, c), J, depth+1, edges) &&
				it.specRegion(fr, b.Succs[1], b, it.ts.And(g, it.ts.Not(c)), J, depth+1, edges)
		case *ssa.Phi:
			fr.env[x] = it.get(fr, x.Edges[0])
		case *ssa.BinOp, *ssa.Field, *ssa.Extract, *ssa.Convert, *ssa.ChangeType, *ssa.ChangeInterface,
			*ssa.MakeInterface, *ssa.FieldAddr, *ssa.IndexAddr, *ssa.Index, *ssa.Lookup, *ssa.DebugRef, *ssa.Slice:
			it.steps++
			it.exec(fr, ins)
		case *ssa.UnOp:
			if x.Op.String() == "<-" {
				return false
			}
			it.steps++
			it.exec(fr, ins)
		case *ssa.TypeAssert:
			if !x.CommaOk {
				return false
			}
			it.exec(fr, ins)
		case *ssa.Call:
			// only length-like builtins
			if bi, ok := x.Call.Value.(*ssa.Builtin); ok && (bi.Name() == "len" || bi.Name() == "cap" || bi.Name() == "min" || bi.Name() == "max") {
				it.exec(fr, ins)
				continue
			}
			if f := x.Call.StaticCallee(); f != nil && it.h.summarizable(f.String()) {
				// a summarised pure callee makes no decisions of its own
				args := make([]Value, len(x.Call.Args))
				for i, a := range x.Call.Args {
					args[i] = it.get(fr, a)
				}
				v, ok := it.summarize(f, args, nil)
				if !ok {
					return false
				}
				it.top = fr
				fr.env[x] = v
				continue
			}
			return false
		default:
			return false
		}
	}
	return false
}

// ---------------------------------------------------------------- summaries of pure callees

type sumState struct {
	prefix    []int
	pos       int
	trace     []int
	alts      []int // number of non-false alternatives at each decision of the trace (for scheduling)
	sched     [][]int
	guard     *Term
	startCell int
}

func (it *Interp) sumChoose(alts []*Term) int {
	st := it.sum
	var live []int
	for i, a := range alts {
		if a.IsTrue() {
			return i
		}
		if !a.IsFalse() {
			live = append(live, i)
		}
	}
	if len(live) == 0 {
		panic(specAbort{})
	}
	if len(live) == 1 {
		st.guard = it.ts.And(st.guard, alts[live[0]])
		return live[0]
	}
	var k int
	if st.pos < len(st.prefix) {
		k = st.prefix[st.pos]
	} else {
		k = live[0]
		for _, o := range live[1:] {
			np := append(append([]int{}, st.trace...), o)
			st.sched = append(st.sched, np)
		}
	}
	st.pos++
	st.trace = append(st.trace, k)
	st.guard = it.ts.And(st.guard, alts[k])
	return k
}

// summarize executes a side-effect-free callee on all of its syntactic paths and merges the results
// into one ite term, so that the callee's internal branching does not multiply the caller's paths.
// Falls back (ok=false) when the callee writes to pre-existing memory, panics, needs a solver
// decision that cannot be deferred, or returns something that cannot be merged.
func (it *Interp) summarize(fn *ssa.Function, args []Value, binds []Value) (res Value, ok bool) {
	type outcome struct {
		g *Term
		v Value
	}
	var outs []outcome
	work := [][]int{nil}
	startCell := it.cellID
	saveTop := it.top
	saveSteps := it.steps
	saveDepth := it.depth
	defer func() {
		it.sum = nil
		it.top = saveTop
		it.depth = saveDepth
		if r := recover(); r != nil {
			switch x := r.(type) {
			case specAbort, *goPanic:
				res, ok = nil, false
				it.steps = saveSteps
				return
			case *pathEnd:
				if x.kind == "unsupported" || x.kind == "unwind" {
					res, ok = nil, false
					return
				}
			}
			panic(r)
		}
	}()
	for len(work) > 0 {
		if len(outs) > 512 {
			panic(specAbort{})
		}
		prefix := work[len(work)-1]
		work = work[:len(work)-1]
		st := &sumState{prefix: prefix, guard: it.ts.Bool(true), startCell: startCell}
		it.sum = st
		v := it.callPlain(fn, args, binds)
		outs = append(outs, outcome{st.guard, v})
		work = append(work, st.sched...)
		it.sum = nil
	}
	acc := outs[len(outs)-1].v
	for i := len(outs) - 2; i >= 0; i-- {
		m, ok := it.mergeValues(outs[i].g, outs[i].v, acc)
		if !ok {
			return nil, false
		}
		acc = m
	}
	return acc, true
}

func (it *Interp) mergeValues(g *Term, a, b Value) (Value, bool) {
	switch x := a.(type) {
	case nil:
		return nil, b == nil
	case *Term:
		y, ok := b.(*Term)
		if !ok || x.w != y.w || x.op == OpNum || y.op == OpNum {
			return nil, false
		}
		return it.ts.Ite(g, x, y), true
	case TupleV:
		y, ok := b.(TupleV)
		if !ok || len(x) != len(y) {
			return nil, false
		}
		r := make(TupleV, len(x))
		for i := range x {
			m, ok := it.mergeValues(g, x[i], y[i])
			if !ok {
				return nil, false
			}
			r[i] = m
		}
		return r, true
	case *StructV:
		y, ok := b.(*StructV)
		if !ok || len(x.f) != len(y.f) {
			return nil, false
		}
		r := make([]Value, len(x.f))
		for i := range x.f {
			m, ok := it.mergeValues(g, x.f[i], y.f[i])
			if !ok {
				return nil, false
			}
			r[i] = m
		}
		return &StructV{r}, true
	case *ArrayV:
		y, ok := b.(*ArrayV)
		if !ok || len(x.e) != len(y.e) {
			return nil, false
		}
		r := make([]Value, len(x.e))
		for i := range x.e {
			m, ok := it.mergeValues(g, x.e[i], y.e[i])
			if !ok {
				return nil, false
			}
			r[i] = m
		}
		return &ArrayV{r}, true
	}
	if sameKey(a, b) {
		return a, true
	}
	return nil, false
}

// callPlain enters fn without consulting the summary table again.
func (it *Interp) callPlain(fn *ssa.Function, args []Value, binds []Value) Value {
	it.noSum++
	defer func() { it.noSum-- }()
	return it.call(fn, args, binds)
}

// symIndexInRange decides whether a symbolic index is provably inside [0,n) (syntactically, or by
// one solver query); only then may the access be kept symbolic.
func (it *Interp) symIndexInRange(idx *Term, n int) bool {
	if n < 8 {
		return false // small objects: case split is cheaper and keeps stores simple
	}
	oob := it.ts.Not(it.ts.ULt(idx, it.ts.BV(uint64(n), idx.w)))
	if oob.IsFalse() {
		return true
	}
	if it.spec > 0 || it.sum != nil {
		return false
	}
	r, _ := it.solver.Check(oob, nil)
	return r == ResUnsat
}

// idx64 widens an index operand to 64 bits according to its Go type.
func (it *Interp) idx64(t *Term, ty types.Type) *Term {
	if t.w == 64 {
		return t
	}
	if _, signed, ok := intInfo(ty); ok && signed {
		return it.ts.SExt(t, 64)
	}
	return it.ts.ZExt(t, 64)
}

func (it *Interp) callStack() string {
	var names []string
	for f := it.top; f != nil && len(names) < 12; f = f.caller {
		names = append(names, f.fn.String())
	}
	return strings.Join(names, " <- ")
}
