package main

// One long-lived solver process per worker, spoken to in SMT-LIB2 over a pipe.

import (
	"bufio"
	"fmt"
	"io"
	"os"
	"os/exec"
	"strconv"
	"strings"
	"sync"
	"time"
)

var qstat = os.Getenv("GOSYM_QSTAT") != ""
var qstatMu sync.Mutex
var qstatMap = map[string]int{}

type Solver struct {
	kind    string // z3 | z3-new | cvc5
	cmd     *exec.Cmd
	in      io.WriteCloser
	out     *bufio.Reader
	buf     strings.Builder
	ts      *TermStore
	ufDone  map[string]bool
	Queries int
	Sat     int
	Unsat   int
	Unknown int
	Errors  int
	Time    time.Duration
	MaxQ    time.Duration
	log     io.Writer
	timeout int
	inPath  bool
	pathLog strings.Builder
	logging bool
	bitOps      int
	Restarts    int
	Fallbacks   int
	FallbackOK  int
	fbTimeoutS  int
	incTimeout  int
}

func NewSolver(kind string, timeoutMs int) (*Solver, error) {
	var cmd *exec.Cmd
	switch kind {
	case "z3":
		cmd = exec.Command("z3", "-in")
	case "z3-new":
		cmd = exec.Command("z3-new", "-in")
	case "cvc5":
		cmd = exec.Command("cvc5", "--incremental", "--lang=smt2", "--produce-models", fmt.Sprintf("--tlimit-per=%d", timeoutMs))
	default:
		return nil, fmt.Errorf("unknown solver %s", kind)
	}
	in, err := cmd.StdinPipe()
	if err != nil {
		return nil, err
	}
	out, err := cmd.StdoutPipe()
	if err != nil {
		return nil, err
	}
	cmd.Stderr = cmd.Stdout
	if err := cmd.Start(); err != nil {
		return nil, err
	}
	s := &Solver{kind: kind, cmd: cmd, in: in, out: bufio.NewReaderSize(out, 1<<20), timeout: timeoutMs}
	if kind == "cvc5" {
		s.send("(set-logic ALL)\n")
	} else {
		s.send(fmt.Sprintf("(set-option :timeout %d)\n", timeoutMs))
	}
	s.send("(set-option :produce-models true)\n")
	if p := os.Getenv("GOSYM_SMTLOG"); p != "" {
		f, _ := os.OpenFile(p, os.O_CREATE|os.O_WRONLY|os.O_APPEND, 0644)
		s.log = f
	}
	return s, nil
}

func (s *Solver) Close() {
	s.in.Close()
	s.cmd.Process.Kill()
	s.cmd.Wait()
}

func (s *Solver) send(txt string) {
	s.buf.WriteString(txt)
	if s.logging {
		s.pathLog.WriteString(txt)
	}
}

func (s *Solver) flush() {
	if s.buf.Len() == 0 {
		return
	}
	if s.log != nil {
		io.WriteString(s.log, s.buf.String())
	}
	io.WriteString(s.in, s.buf.String())
	s.buf.Reset()
}

// roundtrip flushes and reads lines until the sync marker.
func (s *Solver) roundtrip() []string {
	s.send("(echo \"@@sync\")\n")
	s.flush()
	var lines []string
	for {
		line, err := s.out.ReadString('\n')
		line = strings.TrimSpace(line)
		if line == "@@sync" || line == "\"@@sync\"" {
			break
		}
		if line != "" {
			lines = append(lines, line)
		}
		if err != nil {
			lines = append(lines, "(error \"solver died: "+err.Error()+"\")")
			break
		}
	}
	return lines
}

func (s *Solver) PathBegin(ts *TermStore) {
	s.ts = ts
	s.ufDone = map[string]bool{}
	if s.inPath {
		s.send("(pop 1)\n")
	}
	s.send("(push 1)\n")
	s.inPath = true
	s.pathLog.Reset()
	s.logging = true
	s.bitOps = 0
}

func (s *Solver) PathEnd() {
	s.logging = false
	if s.inPath {
		s.send("(pop 1)\n")
		s.inPath = false
	}
	s.flush()
}

// define emits declarations/definitions for t and all its undefined descendants.
func (s *Solver) define(t *Term) {
	if t.defined || t.op == OpConst {
		return
	}
	// iterative post-order
	type fr struct {
		t *Term
		i int
	}
	stack := []fr{{t, 0}}
	for len(stack) > 0 {
		top := &stack[len(stack)-1]
		if top.t.defined || top.t.op == OpConst {
			stack = stack[:len(stack)-1]
			continue
		}
		if top.i < len(top.t.args) {
			c := top.t.args[top.i]
			top.i++
			if !c.defined && c.op != OpConst {
				stack = append(stack, fr{c, 0})
			}
			continue
		}
		x := top.t
		stack = stack[:len(stack)-1]
		switch x.op {
		case OpVar:
			s.send("(declare-const " + x.name + " " + sortStr(x.w) + ")\n")
		case OpUF:
			if !s.ufDone[x.name] {
				s.send(s.ts.ufs[x.name] + "\n")
				s.ufDone[x.name] = true
			}
			if len(x.args) > 0 {
				s.send("(define-fun " + x.ref() + " () " + sortStr(x.w) + " " + x.body() + ")\n")
			} else {
				// 0-ary: refer by name directly
			}
		default:
			switch x.op {
			case OpShl, OpLShr, OpAShr, OpBAnd, OpBOr, OpBXor, OpBNot, OpExtract, OpConcat:
				s.bitOps++
			}
			s.send("(define-fun " + x.ref() + " () " + sortStr(x.w) + " " + x.body() + ")\n")
		}
		x.defined = true
	}
}

func (s *Solver) refOf(t *Term) string {
	if t.op == OpUF && len(t.args) == 0 {
		return t.name
	}
	return t.ref()
}

func (s *Solver) Assert(t *Term) {
	if t.IsTrue() {
		return
	}
	s.define(t)
	s.send("(assert " + s.refOf(t) + ")\n")
}

type CheckResult int

const (
	ResSat CheckResult = iota
	ResUnsat
	ResUnknown
	ResError
)

func (r CheckResult) String() string {
	return [...]string{"sat", "unsat", "unknown", "error"}[r]
}

// Check decides satisfiability of (path assertions ∧ extra). If vars != nil and the result is sat,
// model values for vars are returned (by term name).
func (s *Solver) Check(extra *Term, vars []*Term) (CheckResult, map[string]uint64) {
	if extra != nil && extra.IsFalse() {
		return ResUnsat, nil
	}
	if qstat {
		key := "nil"
		if extra != nil {
			key = extra.String()
			if len(key) > 60 {
				key = key[:60]
			}
		}
		qstatMu.Lock()
		qstatMap[key]++
		qstatMu.Unlock()
	}
	if extra != nil {
		s.define(extra)
	}
	for _, v := range vars {
		s.define(v)
	}
	s.logging = false
	defer func() { s.logging = s.inPath }()
	s.send("(push 1)\n")
	if extra != nil && !extra.IsTrue() {
		s.send("(assert " + s.refOf(extra) + ")\n")
	}
	s.send("(check-sat)\n")
	t0 := time.Now()
	lines := s.roundtrip()
	res := ResUnknown
	canceled := false
	for _, l := range lines {
		switch {
		case l == "sat":
			res = ResSat
		case l == "unsat":
			res = ResUnsat
		case l == "unknown" || l == "timeout":
			res = ResUnknown
		case strings.HasPrefix(l, "(error") && strings.Contains(l, "cancel"):
			// the per-query timer fired inside push/assert processing: the incremental context is no longer
			// trustworthy. Restart the process, re-establish the path context, and let the fallback decide.
			canceled = true
		case strings.HasPrefix(l, "(error"):
			fmt.Fprintln(os.Stderr, "SOLVER ERROR:", l)
			res = ResError
		}
		if res == ResError {
			break
		}
	}
	var model map[string]uint64
	if canceled {
		res = ResUnknown
		s.restart()
	}
	if res == ResUnknown {
		// second opinion: one-shot solver run (full tactic pipeline) on the whole path context
		if !canceled {
			s.send("(pop 1)\n")
			s.flush()
		}
		r2, m2 := s.fallback(extra, vars)
		d := time.Since(t0)
		if d > 3*time.Second && os.Getenv("GOSYM_SLOW") != "" {
			fmt.Fprintf(os.Stderr, "SLOW FALLBACK %.1fs res=%s extra=%s\n", d.Seconds(), r2, extra.String())
		}
		s.Time += d
		if d > s.MaxQ {
			s.MaxQ = d
		}
		s.Queries++
		switch r2 {
		case ResSat:
			s.Sat++
		case ResUnsat:
			s.Unsat++
		case ResUnknown:
			s.Unknown++
		default:
			s.Errors++
		}
		return r2, m2
	}
	if res == ResSat && len(vars) > 0 {
		model = map[string]uint64{}
		// ask in chunks
		for i := 0; i < len(vars); i += 50 {
			j := i + 50
			if j > len(vars) {
				j = len(vars)
			}
			var sb strings.Builder
			sb.WriteString("(get-value (")
			for _, v := range vars[i:j] {
				sb.WriteString(s.refOf(v) + " ")
			}
			sb.WriteString("))\n")
			s.send(sb.String())
			ml := s.roundtrip()
			parseModel(strings.Join(ml, " "), vars[i:j], s, model)
		}
	}
	s.send("(pop 1)\n")
	d := time.Since(t0)
	s.Time += d
	if d > s.MaxQ {
		s.MaxQ = d
	}
	if d > 3*time.Second && os.Getenv("GOSYM_SLOW") != "" {
		es := "<nil>"
		if extra != nil {
			es = extra.String()
		}
		fmt.Fprintf(os.Stderr, "SLOW QUERY %.1fs res=%s extra=%s\n", d.Seconds(), res, es)
	}
	s.Queries++
	switch res {
	case ResSat:
		s.Sat++
	case ResUnsat:
		s.Unsat++
	case ResUnknown:
		s.Unknown++
	default:
		s.Errors++
	}
	return res, model
}

// parseModel parses "((name #x..) (name true) ...)" in order of vars.
func parseModel(txt string, vars []*Term, s *Solver, out map[string]uint64) {
	// tokenise
	toks := []string{}
	cur := strings.Builder{}
	flushTok := func() {
		if cur.Len() > 0 {
			toks = append(toks, cur.String())
			cur.Reset()
		}
	}
	for _, r := range txt {
		switch r {
		case '(', ')':
			flushTok()
			toks = append(toks, string(r))
		case ' ', '\t', '\n':
			flushTok()
		default:
			cur.WriteRune(r)
		}
	}
	flushTok()
	// expect ( ( name val ) ( name val ) ... ); val may be "(_ bvN w)"
	i := 0
	next := func() string {
		if i < len(toks) {
			i++
			return toks[i-1]
		}
		return ""
	}
	if next() != "(" {
		return
	}
	for _, v := range vars {
		if next() != "(" {
			return
		}
		next() // name (or expression) — single token for our refs
		val := next()
		var x uint64
		switch {
		case val == "true":
			x = 1
		case val == "false":
			x = 0
		case strings.HasPrefix(val, "#x"):
			x, _ = strconv.ParseUint(val[2:], 16, 64)
		case strings.HasPrefix(val, "#b"):
			x, _ = strconv.ParseUint(val[2:], 2, 64)
		case val == "(":
			// (_ bvN w)
			next() // _
			bv := next()
			next() // w
			next() // )
			x, _ = strconv.ParseUint(strings.TrimPrefix(bv, "bv"), 10, 64)
		}
		next() // )
		out[s.refOf(v)] = x
	}
}

// fallback decides one query with a fresh one-shot solver process over the full path context.
func (s *Solver) fallback(extra *Term, vars []*Term) (CheckResult, map[string]uint64) {
	s.Fallbacks++
	f, err := os.CreateTemp("", "gosym_fb_*.smt2")
	if err != nil {
		return ResUnknown, nil
	}
	defer os.Remove(f.Name())
	var sb strings.Builder
	sb.WriteString("(set-option :produce-models true)\n")
	txt := s.pathLog.String()
	// drop the leading (push 1) of the path scope
	sb.WriteString(txt)
	if extra != nil && !extra.IsTrue() {
		sb.WriteString("(assert " + s.refOf(extra) + ")\n")
	}
	sb.WriteString("(check-sat)\n")
	if len(vars) > 0 {
		sb.WriteString("(get-value (")
		for _, v := range vars {
			sb.WriteString(s.refOf(v) + " ")
		}
		sb.WriteString("))\n")
	}
	f.WriteString(sb.String())
	f.Close()
	to := s.fbTimeoutS
	if to == 0 {
		to = 120
	}
	res := ResUnknown
	rest := ""
	type attempt struct {
		bin  string
		args []string
	}
	z3bin := "z3"
	if s.kind == "z3-new" {
		z3bin = "z3-new"
	}
	attempts := []attempt{
		{z3bin, []string{fmt.Sprintf("-T:%d", (to+3)/4), f.Name()}},
		{"cvc5", []string{"--lang=smt2", "--produce-models", fmt.Sprintf("--tlimit=%d", to*500), f.Name()}},
		{z3bin, []string{fmt.Sprintf("-T:%d", to), f.Name()}},
	}
	// first: cvc5 with the integer encoding of bit-vector arithmetic (decides linear 64-bit arithmetic in milliseconds);
	// skipped when the path is dominated by bit-level operations, where that encoding is slow
	if s.bitOps < 16 {
		lim := to * 1000 / 8
		if lim < 5000 {
			lim = 5000
		}
		out, _ := exec.Command("cvc5", "--lang=smt2", "--produce-models", "--solve-bv-as-int=sum", fmt.Sprintf("--tlimit=%d", lim), f.Name()).CombinedOutput()
		lines := strings.Split(string(out), "\n")
		for i, l := range lines {
			l = strings.TrimSpace(l)
			if l == "sat" {
				res = ResSat
				rest = strings.Join(lines[i+1:], " ")
				break
			}
			if l == "unsat" {
				res = ResUnsat
				break
			}
		}
		if res != ResUnknown {
			s.FallbackOK++
			var model map[string]uint64
			if res == ResSat && len(vars) > 0 {
				model = map[string]uint64{}
				parseModel(rest, vars, s, model)
			}
			return res, model
		}
	}
	attempts = attempts[:0]
	attempts = append(attempts,
		attempt{"z3", []string{fmt.Sprintf("-T:%d", to), f.Name()}},
		attempt{"z3-new", []string{fmt.Sprintf("-T:%d", to), f.Name()}},
		attempt{"cvc5", []string{"--lang=smt2", "--produce-models", fmt.Sprintf("--tlimit=%d", to*1000), f.Name()}})
	type outcome struct {
		res  CheckResult
		rest string
		bin  string
	}
	ch := make(chan outcome, len(attempts))
	var cmds []*exec.Cmd
	for _, at := range attempts {
		cmd := exec.Command(at.bin, at.args...)
		cmds = append(cmds, cmd)
		go func(cmd *exec.Cmd, bin string) {
			out, _ := cmd.CombinedOutput()
			lines := strings.Split(string(out), "\n")
			o := outcome{res: ResUnknown, bin: bin}
			for i, l := range lines {
				l = strings.TrimSpace(l)
				if l == "sat" {
					o.res = ResSat
					o.rest = strings.Join(lines[i+1:], " ")
					break
				}
				if l == "unsat" {
					o.res = ResUnsat
					break
				}
				if strings.HasPrefix(l, "(error") && !strings.Contains(l, "model is not available") && !strings.Contains(l, "Cannot get value") {
					fmt.Fprintln(os.Stderr, "FALLBACK SOLVER ERROR:", bin, l)
					o.res = ResError
					break
				}
			}
			ch <- o
		}(cmd, at.bin)
	}
	nerr := 0
	for range attempts {
		o := <-ch
		if o.res == ResSat || o.res == ResUnsat {
			res, rest = o.res, o.rest
			break
		}
		if o.res == ResError {
			nerr++
		}
	}
	for _, c := range cmds {
		if c.Process != nil {
			c.Process.Kill()
		}
	}
	if res == ResUnknown && nerr == len(attempts) {
		return ResError, nil
	}
	if d := os.Getenv("GOSYM_KEEP_SLOW"); d != "" {
		os.WriteFile(fmt.Sprintf("%s/slow_%d_%p_%d.smt2", d, os.Getpid(), s, s.Fallbacks), []byte(sb.String()), 0644)
	}
	if res != ResUnknown {
		s.FallbackOK++
	} else if d := os.Getenv("GOSYM_KEEP_UNKNOWN"); d != "" {
		os.WriteFile(fmt.Sprintf("%s/unknown_%d_%d.smt2", d, os.Getpid(), s.Fallbacks), []byte(sb.String()), 0644)
	}
	var model map[string]uint64
	if res == ResSat && len(vars) > 0 {
		model = map[string]uint64{}
		parseModel(rest, vars, s, model)
	}
	return res, model
}

// restart replaces the solver process and re-establishes the current path context from the log.
func (s *Solver) restart() {
	s.in.Close()
	s.cmd.Process.Kill()
	s.cmd.Wait()
	s.Restarts++
	n, err := NewSolver(s.kind, s.timeout)
	if err != nil {
		panic(&pathEnd{"solver-error", "restart failed: " + err.Error()})
	}
	s.cmd, s.in, s.out = n.cmd, n.in, n.out
	s.buf.Reset()
	s.buf.WriteString(n.buf.String())
	if s.inPath {
		s.buf.WriteString("(push 1)\n")
		s.buf.WriteString(s.pathLog.String())
	}
	s.flush()
}
