package main

import (
	"fmt"
	"go/types"
	"hash/crc32"
	"math"
	"strconv"
	"strings"

	"golang.org/x/tools/go/ssa"
)

func lockKey(p *Ptr) string { return fmt.Sprintf("%d/%v", p.cell.id, p.path) }

type nativeFn func(it *Interp, fn *ssa.Function, args []Value) Value

var intercepts map[string]nativeFn

func noop(it *Interp, fn *ssa.Function, args []Value) Value { return it.zeroResults(fn) }

func init() {
	intercepts = map[string]nativeFn{}
	for _, n := range []string{
		"(*sync.WaitGroup).Add", "(*sync.WaitGroup).Done",
		"(*sync.WaitGroup).Wait", "(*sync.Cond).Broadcast", "(*sync.Cond).Signal",
		"(*strings.Builder).copyCheck", "runtime.KeepAlive", "runtime.Gosched",
		"(*sync.noCopy).Lock", "(*sync.noCopy).Unlock",
		"internal/race.Acquire", "internal/race.Release", "internal/race.ReleaseMerge", "internal/race.Disable", "internal/race.Enable",
		"internal/race.Read", "internal/race.Write", "internal/race.ReadRange", "internal/race.WriteRange",
	} {
		intercepts[n] = noop
	}
	intercepts["(*sync.Mutex).TryLock"] = func(it *Interp, fn *ssa.Function, args []Value) Value { return it.ts.Bool(true) }
	// Locks do not block (the engine runs one logical thread at a time) but which locks are held is tracked, so that a
	// harness store can tell whether another goroutine could run at a storage call (vLockHeld).
	lockOp := func(delta int) nativeFn {
		return func(it *Interp, fn *ssa.Function, args []Value) Value {
			if p, ok := args[0].(*Ptr); ok && p != nil && p.cell != nil {
				if it.locks == nil {
					it.locks = map[string]int{}
				}
				k := lockKey(p)
				it.locks[k] += delta
				if it.locks[k] < 0 {
					it.locks[k] = 0
				}
			}
			return it.zeroResults(fn)
		}
	}
	intercepts["(*sync.Mutex).Lock"] = lockOp(1)
	intercepts["(*sync.Mutex).Unlock"] = lockOp(-1)
	intercepts["(*sync.RWMutex).Lock"] = lockOp(1)
	intercepts["(*sync.RWMutex).Unlock"] = lockOp(-1)
	intercepts["(*sync.RWMutex).RLock"] = lockOp(1)
	intercepts["(*sync.RWMutex).RUnlock"] = lockOp(-1)

	// sync/atomic primitives: plain loads/stores (the engine controls scheduling)
	for _, ty := range []string{"Int32", "Int64", "Uint32", "Uint64", "Uintptr", "Pointer"} {
		intercepts["sync/atomic.Load"+ty] = func(it *Interp, fn *ssa.Function, args []Value) Value { return it.load(args[0].(*Ptr)) }
		intercepts["sync/atomic.Store"+ty] = func(it *Interp, fn *ssa.Function, args []Value) Value {
			it.store(args[0].(*Ptr), args[1])
			return nil
		}
		intercepts["sync/atomic.Swap"+ty] = func(it *Interp, fn *ssa.Function, args []Value) Value {
			old := it.load(args[0].(*Ptr))
			it.store(args[0].(*Ptr), args[1])
			return old
		}
		intercepts["sync/atomic.CompareAndSwap"+ty] = func(it *Interp, fn *ssa.Function, args []Value) Value {
			p := args[0].(*Ptr)
			cur := it.load(p)
			eq := it.eqValue(cur, args[1], nil)
			if it.branch(eq) {
				it.store(p, args[2])
				return it.ts.Bool(true)
			}
			return it.ts.Bool(false)
		}
		if ty != "Pointer" {
			intercepts["sync/atomic.Add"+ty] = func(it *Interp, fn *ssa.Function, args []Value) Value {
				p := args[0].(*Ptr)
				nv := it.ts.Add(it.load(p).(*Term), args[1].(*Term))
				it.store(p, nv)
				return nv
			}
			intercepts["sync/atomic.And"+ty] = func(it *Interp, fn *ssa.Function, args []Value) Value {
				p := args[0].(*Ptr)
				old := it.load(p).(*Term)
				it.store(p, it.ts.bin(OpBAnd, old, args[1].(*Term)))
				return old
			}
			intercepts["sync/atomic.Or"+ty] = func(it *Interp, fn *ssa.Function, args []Value) Value {
				p := args[0].(*Ptr)
				old := it.load(p).(*Term)
				it.store(p, it.ts.bin(OpBOr, old, args[1].(*Term)))
				return old
			}
		}
	}
	intercepts["(*sync/atomic.Value).Load"] = func(it *Interp, fn *ssa.Function, args []Value) Value {
		return it.load(subPtr(args[0].(*Ptr), 0))
	}
	intercepts["(*sync/atomic.Value).Store"] = func(it *Interp, fn *ssa.Function, args []Value) Value {
		it.store(subPtr(args[0].(*Ptr), 0), args[1])
		return nil
	}
	intercepts["internal/abi.NoEscape"] = func(it *Interp, fn *ssa.Function, args []Value) Value { return args[0] }
	intercepts["internal/bytealg.MakeNoZero"] = func(it *Interp, fn *ssa.Function, args []Value) Value {
		n := int(it.concInt(args[0].(*Term)))
		arr := make([]Value, n)
		for i := range arr {
			arr[i] = it.ts.BV(0, 8)
		}
		return &SliceV{cell: it.newCell(&ArrayV{arr}, nil, "makenozero"), len: n, cap: n}
	}
	intercepts["(*strings.Builder).String"] = func(it *Interp, fn *ssa.Function, args []Value) Value {
		p := args[0].(*Ptr)
		sv := it.load(p).(*StructV)
		// fields: addr *Builder, buf []byte
		buf := sv.f[1].(*SliceV)
		return strFromBytes(it.sliceTerms(buf))
	}

	// internal/bytealg
	intercepts["internal/bytealg.IndexByteString"] = func(it *Interp, fn *ssa.Function, args []Value) Value {
		return it.indexByte(args[0].(*StrV).bytes(it.ts), args[1].(*Term))
	}
	intercepts["internal/bytealg.IndexByte"] = func(it *Interp, fn *ssa.Function, args []Value) Value {
		return it.indexByte(it.sliceTerms(args[0].(*SliceV)), args[1].(*Term))
	}
	intercepts["internal/bytealg.CountString"] = func(it *Interp, fn *ssa.Function, args []Value) Value {
		return it.countByte(args[0].(*StrV).bytes(it.ts), args[1].(*Term))
	}
	intercepts["internal/bytealg.Count"] = func(it *Interp, fn *ssa.Function, args []Value) Value {
		return it.countByte(it.sliceTerms(args[0].(*SliceV)), args[1].(*Term))
	}
	intercepts["internal/bytealg.Equal"] = func(it *Interp, fn *ssa.Function, args []Value) Value {
		a := strFromBytes(it.sliceTerms(args[0].(*SliceV)))
		b := strFromBytes(it.sliceTerms(args[1].(*SliceV)))
		return it.strEq(a, b)
	}
	intercepts["bytes.Equal"] = intercepts["internal/bytealg.Equal"]
	intercepts["internal/bytealg.IndexString"] = func(it *Interp, fn *ssa.Function, args []Value) Value {
		return it.indexSub(args[0].(*StrV).bytes(it.ts), args[1].(*StrV).bytes(it.ts))
	}
	intercepts["internal/bytealg.Index"] = func(it *Interp, fn *ssa.Function, args []Value) Value {
		return it.indexSub(it.sliceTerms(args[0].(*SliceV)), it.sliceTerms(args[1].(*SliceV)))
	}
	intercepts["strings.Index"] = intercepts["internal/bytealg.IndexString"]
	intercepts["bytes.Index"] = intercepts["internal/bytealg.Index"]
	intercepts["internal/stringslite.Index"] = intercepts["internal/bytealg.IndexString"]
	intercepts["internal/bytealg.CompareString"] = func(it *Interp, fn *ssa.Function, args []Value) Value {
		a, b := args[0].(*StrV), args[1].(*StrV)
		lt := it.strLess(a, b, false)
		eq := it.strEq(a, b)
		return it.ts.Ite(lt, it.ts.BV(^uint64(0), 64), it.ts.Ite(eq, it.ts.BV(0, 64), it.ts.BV(1, 64)))
	}
	intercepts["strings.Compare"] = intercepts["internal/bytealg.CompareString"]
	intercepts["internal/bytealg.Compare"] = func(it *Interp, fn *ssa.Function, args []Value) Value {
		a := strFromBytes(it.sliceTerms(args[0].(*SliceV)))
		b := strFromBytes(it.sliceTerms(args[1].(*SliceV)))
		lt := it.strLess(a, b, false)
		eq := it.strEq(a, b)
		return it.ts.Ite(lt, it.ts.BV(^uint64(0), 64), it.ts.Ite(eq, it.ts.BV(0, 64), it.ts.BV(1, 64)))
	}
	intercepts["bytes.Compare"] = intercepts["internal/bytealg.Compare"]
	intercepts["cmp.Compare[string]"] = intercepts["internal/bytealg.CompareString"]

	// strconv
	intercepts["strconv.FormatUint"] = func(it *Interp, fn *ssa.Function, args []Value) Value {
		v := args[0].(*Term)
		base := int(it.concInt(args[1].(*Term)))
		if v.IsConst() {
			return concStr(strconv.FormatUint(v.cval, base))
		}
		if base != 10 && base != 16 {
			panic(unsupported("FormatUint symbolic with base " + strconv.Itoa(base)))
		}
		return &StrV{b: []*Term{it.ts.Num(v, base)}}
	}
	intercepts["strconv.FormatInt"] = func(it *Interp, fn *ssa.Function, args []Value) Value {
		v := args[0].(*Term)
		base := int(it.concInt(args[1].(*Term)))
		if v.IsConst() {
			return concStr(strconv.FormatInt(int64(v.cval), base))
		}
		// non-negative symbolic values only
		if it.branch(it.ts.SLt(v, it.ts.BV(0, 64))) {
			panic(unsupported("FormatInt of negative symbolic value"))
		}
		if base != 10 {
			panic(unsupported("FormatInt symbolic base"))
		}
		return &StrV{b: []*Term{it.ts.Num(v, base)}}
	}
	intercepts["strconv.Itoa"] = func(it *Interp, fn *ssa.Function, args []Value) Value {
		v := args[0].(*Term)
		if v.IsConst() {
			return concStr(strconv.Itoa(int(int64(v.cval))))
		}
		if it.branch(it.ts.SLt(v, it.ts.BV(0, 64))) {
			panic(unsupported("Itoa of negative symbolic value"))
		}
		return &StrV{b: []*Term{it.ts.Num(v, 10)}}
	}
	intercepts["strconv.ParseUint"] = func(it *Interp, fn *ssa.Function, args []Value) Value {
		s := args[0].(*StrV)
		if s.hasNum() {
			base := int(it.concInt(args[1].(*Term)))
			bits := int(it.concInt(args[2].(*Term)))
			if len(s.b) == 1 && s.b[0].op == OpNum && s.b[0].a == base && (bits == 64 || bits == 0) {
				return TupleV{s.b[0].args[0], &IfaceV{}}
			}
			panic(unsupported("ParseUint of mixed Num string " + showValue(s)))
		}
		if s.isConc {
			base := int(it.concInt(args[1].(*Term)))
			bits := int(it.concInt(args[2].(*Term)))
			v, err := strconv.ParseUint(s.conc, base, bits)
			if err == nil {
				return TupleV{it.ts.BV(v, 64), &IfaceV{}}
			}
		}
		// symbolic bytes (or concrete failing input): run the real code
		return it.callBody(fn, args)
	}
	intercepts["strconv.Quote"] = func(it *Interp, fn *ssa.Function, args []Value) Value {
		s := args[0].(*StrV)
		if s.isConc {
			return concStr(strconv.Quote(s.conc))
		}
		return it.opaqueStr("quote")
	}

	// fmt
	intercepts["fmt.Sprintf"] = func(it *Interp, fn *ssa.Function, args []Value) Value {
		return it.sprintf(args[0].(*StrV), it.sliceVals(args[1].(*SliceV)))
	}
	intercepts["fmt.Appendf"] = func(it *Interp, fn *ssa.Function, args []Value) Value {
		s := it.sprintf(args[1].(*StrV), it.sliceVals(args[2].(*SliceV)))
		dst := args[0].(*SliceV)
		var add []Value
		for _, t := range s.bytes(it.ts) {
			add = append(add, t)
		}
		return it.appendVals(dst, add, fn.Signature.Params().At(0).Type())
	}
	intercepts["fmt.Sprint"] = func(it *Interp, fn *ssa.Function, args []Value) Value { return it.opaqueStr("sprint") }
	intercepts["fmt.Sprintln"] = intercepts["fmt.Sprint"]
	intercepts["fmt.Errorf"] = func(it *Interp, fn *ssa.Function, args []Value) Value {
		format := args[0].(*StrV)
		vals := it.sliceVals(args[1].(*SliceV))
		var wrapped Value
		if format.isConc && strings.Contains(format.conc, "%w") {
			// find operand for %w
			idx := verbOperandIndex(format.conc, 'w')
			if idx >= 0 && idx < len(vals) {
				wrapped = vals[idx]
			}
		}
		msg := it.sprintfSafe(format, vals)
		return it.makeError(msg, wrapped)
	}
	intercepts["fmt.Sscanf"] = func(it *Interp, fn *ssa.Function, args []Value) Value {
		// contract stub for the single use in the repo: fmt.Sscanf(s, "%d-", &int)
		ts := it.ts
		str := args[0].(*StrV)
		format := it.needConc(args[1].(*StrV), "Sscanf format")
		targets := it.sliceVals(args[2].(*SliceV))
		if format != "%d-" || len(targets) != 1 {
			panic(unsupported("fmt.Sscanf with format " + format))
		}
		tp, ok := targets[0].(*IfaceV).v.(*Ptr)
		if !ok {
			panic(unsupported("fmt.Sscanf target"))
		}
		bs := str.bytes(ts)
		val := ts.BV(0, 64)
		nd := 0
		for nd < len(bs) && nd < 6 {
			b := bs[nd]
			if b.op == OpNum {
				panic(unsupported("Sscanf over numeral segment"))
			}
			if nd == 0 && it.branch(ts.Or(ts.Eq(b, ts.BV('+', 8)), ts.Eq(b, ts.BV('-', 8)))) {
				panic(unsupported("Sscanf signed input"))
			}
			isDig := ts.And(ts.ULe(ts.BV('0', 8), b), ts.ULe(b, ts.BV('9', 8)))
			if !it.branch(isDig) {
				break
			}
			val = ts.Add(ts.Mul(val, ts.BV(10, 64)), ts.ZExt(ts.Sub(b, ts.BV('0', 8)), 64))
			nd++
		}
		if nd == 0 {
			return TupleV{ts.BV(0, 64), it.makeError(concStr("expected integer"), nil)}
		}
		if nd == 6 {
			panic(unsupported("Sscanf number longer than 5 digits"))
		}
		it.store(tp, val)
		if nd < len(bs) && it.branch(ts.Eq(bs[nd], ts.BV('-', 8))) {
			return TupleV{ts.BV(1, 64), &IfaceV{}}
		}
		return TupleV{ts.BV(1, 64), it.makeError(concStr("input does not match format"), nil)}
	}
	intercepts["fmt.Println"] = noop
	intercepts["fmt.Printf"] = noop
	intercepts["fmt.Print"] = noop
	intercepts["fmt.Fprintf"] = noop
	intercepts["log.Printf"] = noop
	intercepts["log.Println"] = noop

	// errors
	intercepts["errors.Is"] = func(it *Interp, fn *ssa.Function, args []Value) Value {
		return it.ts.Bool(it.errorsIs(args[0].(*IfaceV), args[1].(*IfaceV), 0))
	}
	intercepts["errors.As"] = func(it *Interp, fn *ssa.Function, args []Value) Value {
		return it.ts.Bool(it.errorsAs(args[0].(*IfaceV), args[1].(*IfaceV), fn))
	}
	intercepts["github.com/pkg/errors.Cause"] = func(it *Interp, fn *ssa.Function, args []Value) Value {
		return it.callBody(fn, args)
	}

	// time
	// time: a concrete, strictly increasing clock (one second per call). Harnesses that need symbolic time
	// use their own clock stubs; code under test only uses these instants for stats and age thresholds.
	intercepts["time.Now"] = func(it *Interp, fn *ssa.Function, args []Value) Value {
		ts := it.ts
		it.clock++
		sec := uint64(63_850_000_000) + uint64(it.clock)
		return &StructV{f: []Value{ts.BV(0, 64), ts.BV(sec, 64), nilPtr()}}
	}
	intercepts["time.After"] = func(it *Interp, fn *ssa.Function, args []Value) Value {
		// the timer has always fired by the time the channel is read (waiting is not modelled)
		it.cellID++
		ts := it.ts
		return &ChanV{ch: &ChanObj{cap: 1, id: it.cellID, buf: []Value{&StructV{f: []Value{ts.BV(0, 64), ts.BV(0, 64), nilPtr()}}}}}
	}
	intercepts["time.Since"] = func(it *Interp, fn *ssa.Function, args []Value) Value {
		return it.ts.BV(1_000_000, 64)
	}
	intercepts["crypto/rand.Read"] = func(it *Interp, fn *ssa.Function, args []Value) Value {
		b := args[0].(*SliceV)
		if b.len > 0 {
			arr := b.cell.v.(*ArrayV)
			e := make([]Value, len(arr.e))
			copy(e, arr.e)
			for i := 0; i < b.len; i++ {
				e[b.off+i] = it.ts.Var(8, "rand")
			}
			b.cell.v = &ArrayV{e}
		}
		return TupleV{it.ts.BV(uint64(b.len), 64), &IfaceV{}}
	}
	// digests and password hashing: uninterpreted functions (sha1 assumed collision-free)
	intercepts["crypto/sha1.New"] = func(it *Interp, fn *ssa.Function, args []Value) Value {
		pkg := it.prog.ImportedPackage("crypto/sha1")
		ensureBuilt(pkg)
		dt := pkg.Type("digest").Type()
		cell := it.newCell(it.zero(dt), dt, "sha1.digest")
		it.digests[cell.id] = []*Term{}
		return &IfaceV{t: types.NewPointer(dt), v: &Ptr{cell: cell}}
	}
	intercepts["(*crypto/sha1.digest).Write"] = func(it *Interp, fn *ssa.Function, args []Value) Value {
		p := args[0].(*Ptr)
		data := it.sliceTerms(args[1].(*SliceV))
		it.digests[p.cell.id] = append(it.digests[p.cell.id], data...)
		return TupleV{it.ts.BV(uint64(len(data)), 64), &IfaceV{}}
	}
	intercepts["(*crypto/sha1.digest).Sum"] = func(it *Interp, fn *ssa.Function, args []Value) Value {
		p := args[0].(*Ptr)
		out := it.digestUF("sha1", it.digests[p.cell.id], 20)
		var add []Value
		for _, t := range out {
			add = append(add, t)
		}
		return it.appendVals(args[1].(*SliceV), add, fn.Signature.Params().At(0).Type())
	}
	intercepts["golang.org/x/crypto/bcrypt.CompareHashAndPassword"] = func(it *Interp, fn *ssa.Function, args []Value) Value {
		h := it.sliceTerms(args[0].(*SliceV))
		pw := it.sliceTerms(args[1].(*SliceV))
		all := append(append([]*Term{}, h...), pw...)
		ok := it.ts.UF(fmt.Sprintf("bcrypt_ok_%d_%d", len(h), len(pw)), 0, all...)
		if it.branch(ok) {
			return &IfaceV{}
		}
		return it.makeError(concStr("crypto/bcrypt: hashedPassword is not the hash of the given password"), nil)
	}
	intercepts["golang.org/x/crypto/bcrypt.GenerateFromPassword"] = func(it *Interp, fn *ssa.Function, args []Value) Value {
		pw := it.sliceTerms(args[0].(*SliceV))
		n := 2 // same length as the longest symbolic hash the harnesses query with, so keys can collide
		h := make([]*Term, n)
		for i := range h {
			h[i] = it.ts.Var(8, "bcrypthash")
		}
		all := append(append([]*Term{}, h...), pw...)
		it.assume(it.ts.UF(fmt.Sprintf("bcrypt_ok_%d_%d", n, len(pw)), 0, all...))
		// the hash records the cost it was generated with
		if cost, ok := args[1].(*Term); ok {
			it.assume(it.ts.Eq(it.ts.UF(fmt.Sprintf("bcrypt_cost_%d", n), 64, h...), cost))
		}
		return TupleV{it.bytesToSlice(h), &IfaceV{}}
	}
	intercepts["golang.org/x/crypto/bcrypt.Cost"] = func(it *Interp, fn *ssa.Function, args []Value) Value {
		h := it.sliceTerms(args[0].(*SliceV))
		c := it.ts.UF(fmt.Sprintf("bcrypt_cost_%d", len(h)), 64, h...)
		it.assume(it.ts.ULe(c, it.ts.BV(31, 64)))
		return TupleV{c, &IfaceV{}}
	}
	intercepts["github.com/google/uuid.NewString"] = func(it *Interp, fn *ssa.Function, args []Value) Value {
		v := it.ts.Var(64, "uuid")
		for _, o := range it.uuids {
			it.assume(it.ts.Not(it.ts.Eq(v, o)))
		}
		it.uuids = append(it.uuids, v)
		return &StrV{b: []*Term{it.ts.Num(v, 0)}}
	}
	randIntn := func(it *Interp, fn *ssa.Function, args []Value) Value {
		n := args[0].(*Term)
		v := it.ts.Var(n.w, "rand")
		if n.IsConst() && n.cval == 0 {
			it.goPanicf("invalid argument to Intn")
		}
		it.assume(it.ts.ULt(v, n))
		return v
	}
	intercepts["math/rand.Intn"] = randIntn
	intercepts["math/rand.Int63n"] = randIntn
	intercepts["math/rand.Int31n"] = randIntn
	intercepts["math/rand/v2.IntN"] = randIntn
	// CRC32: an uninterpreted function of the input bytes (collisions possible, as in reality)
	intercepts["hash/crc32.MakeTable"] = func(it *Interp, fn *ssa.Function, args []Value) Value { return nilPtr() }
	intercepts["hash/crc32.Checksum"] = func(it *Interp, fn *ssa.Function, args []Value) Value {
		data := it.sliceTerms(args[0].(*SliceV))
		if len(data) == 0 {
			return it.ts.BV(0, 32)
		}
		allc := true
		for _, d := range data {
			if !d.IsConst() {
				allc = false
			}
		}
		if allc {
			bs := make([]byte, len(data))
			for i, d := range data {
				bs[i] = byte(d.cval)
			}
			return it.ts.BV(uint64(crc32.Checksum(bs, crc32.MakeTable(crc32.Castagnoli))), 32)
		}
		return it.ts.UF(fmt.Sprintf("crc32c_%d", len(data)), 32, data...)
	}
	intercepts["github.com/couchbase/sync_gateway/base.IsRevTreeID"] = func(it *Interp, fn *ssa.Function, args []Value) Value {
		// real body on ordinary strings; on a string that starts with a numeral segment the scan is summarised:
		// decimal numeral followed by '-' => true; any numeral followed by a byte known not to be '-' => false
		// (the scan stops at the first non-decimal character, which is inside a hex numeral or right after it).
		sv := args[0].(*StrV)
		if !sv.hasNum() {
			return it.callBody(fn, args)
		}
		if len(sv.b) >= 2 && sv.b[0].op == OpNum && (sv.b[0].a == 10 || sv.b[0].a == 16) && sv.b[1].IsConst() {
			nx := byte(sv.b[1].cval)
			if nx == '-' && sv.b[0].a == 10 {
				return it.ts.Bool(true)
			}
			if nx != '-' && !(nx >= '0' && nx <= '9') {
				return it.ts.Bool(false)
			}
		}
		panic(unsupported("IsRevTreeID on a numeral string of unknown shape"))
	}
	intercepts["github.com/couchbase/sync_gateway/base.AllOrNoneNil"] = func(it *Interp, fn *ssa.Function, args []Value) Value {
		// reflect-based helper: true iff all arguments are nil or none is
		vals := it.sliceVals(args[0].(*SliceV))
		nils := 0
		for _, v := range vals {
			iv := v.(*IfaceV)
			isNil := iv.t == nil
			if !isNil {
				switch x := iv.v.(type) {
				case *Ptr:
					isNil = x.isNil()
				case *MapV:
					isNil = x.m == nil
				case *SliceV:
					isNil = x.cell == nil
				case *FuncV:
					isNil = x.fn == nil && x.native == ""
				case *ChanV:
					isNil = x.ch == nil
				case *IfaceV:
					isNil = x.t == nil
				}
			}
			if isNil {
				nils++
			}
		}
		return it.ts.Bool(nils == 0 || nils == len(vals))
	}
	intercepts["maps.clone"] = func(it *Interp, fn *ssa.Function, args []Value) Value {
		iv := args[0].(*IfaceV)
		m, ok := iv.v.(*MapV)
		if !ok {
			panic(unsupported("maps.clone of non-map"))
		}
		if m.m == nil {
			return iv
		}
		it.cellID++
		n := &MapObj{id: it.cellID, entries: append([]mapEntry{}, m.m.entries...)}
		return &IfaceV{t: iv.t, v: &MapV{m: n}}
	}
	intercepts["math.Pow"] = func(it *Interp, fn *ssa.Function, args []Value) Value {
		return FloatV{math.Pow(args[0].(FloatV).f, args[1].(FloatV).f), 64}
	}
	// skip-list node heights are a performance detail: a constant height keeps the structure a sorted list
	intercepts["(*github.com/couchbasedeps/fast-skiplist.SkipList).randLevel"] = func(it *Interp, fn *ssa.Function, args []Value) Value {
		return it.ts.BV(1, 64)
	}
	intercepts["math/rand.NewSource"] = func(it *Interp, fn *ssa.Function, args []Value) Value { return &IfaceV{} }
	intercepts["math/rand.New"] = func(it *Interp, fn *ssa.Function, args []Value) Value { return nilPtr() }
	intercepts["time.Sleep"] = noop
	intercepts["runtime.SetFinalizer"] = noop
	intercepts["math/bits.Len64"] = nil
	delete(intercepts, "math/bits.Len64")

	// JSON contract stubs (encoding/json is never executed)
	intercepts["github.com/couchbase/sync_gateway/base.JSONUnmarshal"] = jsonUnmarshalStub

	// sort
	intercepts["sort.Slice"] = sortSlice
	intercepts["sort.SliceStable"] = sortSlice
	intercepts["slices.Clone[[]string string]"] = nil
	delete(intercepts, "slices.Clone[[]string string]")
}

// prefixIntercept handles families of functions (logging, redaction, stats).
func prefixIntercept(name string) nativeFn {
	const basePkg = "github.com/couchbase/sync_gateway/base."
	if strings.HasPrefix(name, basePkg) {
		fn := name[len(basePkg):]
		switch fn {
		case "InfofCtx", "DebugfCtx", "WarnfCtx", "TracefCtx", "ErrorfCtx", "ConsolefCtx", "SyncWarnfCtx", "RecordStats",
			"AssertfCtx", "DebugLogEnabledNoop", "Audit", "LogSyncGatewayVersion", "FlushLogBuffers":
			return noop
		case "LogDebugEnabled", "LogTraceEnabled", "LogInfoEnabled", "IsDevMode", "IsAuditEnabled":
			return func(it *Interp, fn *ssa.Function, args []Value) Value { return it.ts.Bool(false) }
		case "BucketNameCtx", "CollectionLogCtx", "ImplicitDefaultCollectionLogCtx", "CorrelationIDLogCtx", "DatabaseLogCtx",
			"AuditLogCtx", "EffectiveUserIDLogCtx", "KeyspaceLogCtx", "DataStoreLogCtx", "UserLogCtx", "RequestLogCtx", "LogContextWith", "bucketCtx":
			// logging contexts carry no behaviour the properties depend on: the parent context is returned unchanged
			return func(it *Interp, fn *ssa.Function, args []Value) Value { return args[0] }
		case "RedactSprintf":
			return func(it *Interp, fn *ssa.Function, args []Value) Value { return it.opaqueStr("redacted") }
		case "UD", "MD", "SD":
			return func(it *Interp, fn *ssa.Function, args []Value) Value {
				return it.zeroResults(fn)
			}
		}
	}
	return nil
}

// callBody runs the real SSA body of fn, bypassing the intercept table.
func (it *Interp) callBody(fn *ssa.Function, args []Value) Value {
	name := fn.String()
	it.bypass[name]++
	defer func() { it.bypass[name]-- }()
	return it.call(fn, args, nil)
}

func (it *Interp) opaqueStr(hint string) *StrV {
	v := it.ts.Var(64, "opaque_"+hint)
	return &StrV{b: []*Term{it.ts.Num(v, 0)}}
}

func (it *Interp) indexByte(b []*Term, c *Term) Value {
	ts := it.ts
	for i, x := range b {
		if x.op == OpNum {
			if !c.IsConst() || x.a == 0 || isDigitByte(byte(c.cval), x.a) {
				panic(unsupported("IndexByte across Num segment for digit-like byte"))
			}
			continue
		}
		if it.branch(ts.Eq(x, c)) {
			return ts.BV(uint64(i), 64)
		}
	}
	return ts.BV(^uint64(0), 64)
}

func (it *Interp) countByte(b []*Term, c *Term) Value {
	ts := it.ts
	n := 0
	for _, x := range b {
		if x.op == OpNum {
			if !c.IsConst() || x.a == 0 || isDigitByte(byte(c.cval), x.a) {
				panic(unsupported("Count across Num segment for digit-like byte"))
			}
			continue
		}
		if it.branch(ts.Eq(x, c)) {
			n++
		}
	}
	return ts.BV(uint64(n), 64)
}

func (it *Interp) indexSub(s, sub []*Term) Value {
	ts := it.ts
	if len(sub) == 0 {
		return ts.BV(0, 64)
	}
	for _, x := range sub {
		if x.op == OpNum {
			panic(unsupported("Index with Num in needle"))
		}
	}
	for i := 0; i+len(sub) <= len(s); i++ {
		m := ts.Bool(true)
		for j := range sub {
			x := s[i+j]
			if x.op == OpNum {
				if x.a == 0 && len(sub) >= 3 && allConst(sub) {
					// opaque formatted fragment (redacted name, %v of a composite value): assumed not to take part in a
					// match of a constant needle (error classifiers looking for fixed phrases)
					it.stubsUsed["assumption: opaque formatted fragments never match a constant search phrase"] = true
					m = ts.Bool(false)
					break
				}
				if !sub[j].IsConst() || x.a == 0 || isDigitByte(byte(sub[j].cval), x.a) {
					panic(unsupported("Index across Num segment"))
				}
				m = ts.Bool(false)
				break
			}
			m = ts.And(m, ts.Eq(x, sub[j]))
		}
		if it.branch(m) {
			return ts.BV(uint64(i), 64)
		}
	}
	return ts.BV(^uint64(0), 64)
}

func allConst(b []*Term) bool {
	for _, x := range b {
		if !x.IsConst() {
			return false
		}
	}
	return true
}

func verbOperandIndex(format string, verb byte) int {
	idx := 0
	for i := 0; i < len(format); i++ {
		if format[i] != '%' {
			continue
		}
		i++
		for i < len(format) && strings.IndexByte("+-# 0123456789.", format[i]) >= 0 {
			i++
		}
		if i >= len(format) {
			break
		}
		if format[i] == '%' {
			continue
		}
		if format[i] == verb {
			return idx
		}
		idx++
	}
	return -1
}

// sprintfSafe never fails: unsupported pieces become opaque.
func (it *Interp) sprintfSafe(format *StrV, vals []Value) (res *StrV) {
	defer func() {
		if r := recover(); r != nil {
			if pe, ok := r.(*pathEnd); ok && pe.kind == "unsupported" {
				res = it.opaqueStr("fmt")
				return
			}
			panic(r)
		}
	}()
	return it.sprintf(format, vals)
}

func (it *Interp) sprintf(format *StrV, vals []Value) *StrV {
	f := it.needConc(format, "format string")
	out := concStr("")
	idx := 0
	lit := strings.Builder{}
	flushLit := func() {
		if lit.Len() > 0 {
			out = it.strConcat(out, concStr(lit.String()))
			lit.Reset()
		}
	}
	for i := 0; i < len(f); i++ {
		if f[i] != '%' {
			lit.WriteByte(f[i])
			continue
		}
		i++
		if i >= len(f) {
			break
		}
		if f[i] == '%' {
			lit.WriteByte('%')
			continue
		}
		flags := ""
		for i < len(f) && strings.IndexByte("+-# 0123456789.", f[i]) >= 0 {
			flags += string(f[i])
			i++
		}
		if i >= len(f) {
			break
		}
		verb := f[i]
		if idx >= len(vals) {
			lit.WriteString("%!" + string(verb) + "(MISSING)")
			continue
		}
		arg := vals[idx]
		idx++
		flushLit()
		out = it.strConcat(out, it.fmtArg(verb, flags, arg))
	}
	flushLit()
	return out
}

func (it *Interp) fmtArg(verb byte, flags string, arg Value) *StrV {
	iv, ok := arg.(*IfaceV)
	if !ok {
		return it.opaqueStr("arg")
	}
	if iv.t == nil {
		return concStr("<nil>")
	}
	switch v := iv.v.(type) {
	case *Term:
		if w, signed, ok := intInfo(iv.t); ok && flags == "" {
			_ = w
			switch verb {
			case 'd', 'v':
				if v.IsConst() {
					return concStr(fmtInt(v, signed))
				}
				if signed {
					if it.branch(it.ts.SLt(v, it.ts.BV(0, v.w))) {
						panic(unsupported("%d of negative symbolic"))
					}
				}
				return &StrV{b: []*Term{it.ts.Num(it.ts.ZExt(v, 64), 10)}}
			case 'x':
				if v.IsConst() && !signed {
					return concStr(strconv.FormatUint(v.cval, 16))
				}
				if !signed {
					return &StrV{b: []*Term{it.ts.Num(it.ts.ZExt(v, 64), 16)}}
				}
			}
		}
		if _, signed, ok := intInfo(iv.t); ok && !signed && verb == 'x' && flags == "08" && v.w == 32 {
			// fixed-width zero-padded hex: an injective 8-character numeral
			if v.IsConst() {
				return concStr(fmt.Sprintf("%08x", v.cval))
			}
			n := it.ts.Num(it.ts.ZExt(v, 64), 16)
			return &StrV{b: []*Term{it.ts.mk(OpNum, 8, n.args, 0, "", 16, 8)}}
		}
		if v.w == 0 && (verb == 't' || verb == 'v') && v.IsConst() {
			if v.cval == 1 {
				return concStr("true")
			}
			return concStr("false")
		}
	case *StrV:
		if isString(iv.t) && flags == "" {
			switch verb {
			case 's', 'v':
				// only plain string types without String() methods
				if _, isNamed := types.Unalias(iv.t).(*types.Named); !isNamed {
					return v
				}
				if it.lookupMethod(iv.t, nil, "String") == nil && it.lookupMethod(iv.t, nil, "Error") == nil {
					return v
				}
			case 'q':
				if v.isConc {
					return concStr(strconv.Quote(v.conc))
				}
			}
		}
	}
	return it.opaqueStr("arg")
}

// makeError builds an error value like fmt.Errorf would (*fmt.wrapError when wrapping, else *errors.errorString).
func (it *Interp) makeError(msg *StrV, wrapped Value) Value {
	if wrapped != nil {
		fp := it.prog.ImportedPackage("fmt")
		if fp != nil {
			if tn := fp.Type("wrapError"); tn != nil {
				cell := it.newCell(&StructV{f: []Value{msg, wrapped}}, tn.Type(), "wrapError")
				return &IfaceV{t: types.NewPointer(tn.Type()), v: &Ptr{cell: cell}}
			}
		}
	}
	ep := it.prog.ImportedPackage("errors")
	tn := ep.Type("errorString")
	cell := it.newCell(&StructV{f: []Value{msg}}, tn.Type(), "errorString")
	return &IfaceV{t: types.NewPointer(tn.Type()), v: &Ptr{cell: cell}}
}

func (it *Interp) unwrapErr(e *IfaceV) []*IfaceV {
	if e.t == nil {
		return nil
	}
	if m := it.lookupMethod(e.t, nil, "Unwrap"); m != nil {
		res := m.Signature.Results()
		if res.Len() == 1 {
			r := it.call(m, []Value{e.v}, nil)
			if iv, ok := r.(*IfaceV); ok {
				if iv.t == nil {
					return nil
				}
				return []*IfaceV{iv}
			}
			if sl, ok := r.(*SliceV); ok {
				var out []*IfaceV
				for _, v := range it.sliceVals(sl) {
					out = append(out, v.(*IfaceV))
				}
				return out
			}
		}
	}
	return nil
}

func (it *Interp) errorsIs(err, target *IfaceV, depth int) bool {
	if err.t == nil || target.t == nil {
		return err.t == nil && target.t == nil
	}
	if depth > 20 {
		panic(unsupported("errors.Is chain too deep"))
	}
	if types.Identical(err.t, target.t) && types.Comparable(err.t) {
		eq := it.eqValue(err.v, target.v, err.t)
		if it.branch(eq) {
			return true
		}
	}
	if m := it.lookupMethod(err.t, nil, "Is"); m != nil && m.Signature.Params().Len() == 1 {
		r := it.call(m, []Value{err.v, target}, nil)
		if t, ok := r.(*Term); ok && it.branch(t) {
			return true
		}
	}
	for _, u := range it.unwrapErr(err) {
		if it.errorsIs(u, target, depth+1) {
			return true
		}
	}
	return false
}

func (it *Interp) errorsAs(err *IfaceV, target *IfaceV, fn *ssa.Function) bool {
	if target.t == nil {
		it.goPanicf("errors: target cannot be nil")
	}
	pt, ok := types.Unalias(target.t).(*types.Pointer)
	if !ok {
		it.goPanicf("errors: target must be a non-nil pointer")
	}
	tt := pt.Elem()
	tp := target.v.(*Ptr)
	for depth := 0; err != nil && err.t != nil; depth++ {
		if depth > 20 {
			panic(unsupported("errors.As chain too deep"))
		}
		if types.IsInterface(tt) {
			if types.AssignableTo(err.t, tt) {
				it.store(tp, err)
				return true
			}
		} else if types.Identical(err.t, tt) {
			it.store(tp, err.v)
			return true
		}
		if m := it.lookupMethod(err.t, nil, "As"); m != nil {
			r := it.call(m, []Value{err.v, target}, nil)
			if t, ok := r.(*Term); ok && it.branch(t) {
				return true
			}
		}
		us := it.unwrapErr(err)
		if len(us) == 0 {
			return false
		}
		if len(us) > 1 {
			panic(unsupported("errors.As over joined errors"))
		}
		err = us[0]
	}
	return false
}

// sortSlice: insertion sort through the caller's less closure (what sort.Slice does for n < 12).
func sortSlice(it *Interp, fn *ssa.Function, args []Value) Value {
	iv := args[0].(*IfaceV)
	s, ok := iv.v.(*SliceV)
	if !ok {
		panic(unsupported("sort.Slice on non-slice"))
	}
	less := args[1].(*FuncV)
	n := s.len
	for i := 1; i < n; i++ {
		for j := i; j > 0; j-- {
			r := it.callFunc(less, []Value{it.ts.BV(uint64(j), 64), it.ts.BV(uint64(j-1), 64)}, 0).(*Term)
			if !it.branch(r) {
				break
			}
			arr := s.cell.v.(*ArrayV)
			e := make([]Value, len(arr.e))
			copy(e, arr.e)
			e[s.off+j], e[s.off+j-1] = e[s.off+j-1], e[s.off+j]
			s.cell.v = &ArrayV{e}
		}
	}
	return nil
}

var _ = fmt.Sprintf

// jsonUnmarshalStub models base.JSONUnmarshal for the only target shape the kernels use with symbolic
// input: *string. Contract of encoding/json: input must be one JSON string literal (after optional
// whitespace); escape-free contents are returned verbatim. Anything needing unescaping is unsupported.
func jsonUnmarshalStub(it *Interp, fn *ssa.Function, args []Value) Value {
	ts := it.ts
	data := it.sliceTerms(args[0].(*SliceV))
	tgt := args[1].(*IfaceV)
	pt, ok := types.Unalias(tgt.t).(*types.Pointer)
	if !ok || !isString(pt.Elem()) {
		panic(unsupported("JSONUnmarshal into " + fmt.Sprint(tgt.t)))
	}
	fail := func() Value { return it.makeError(concStr("json: invalid input for string"), nil) }
	isWS := func(b *Term) *Term {
		return ts.OrN(ts.Eq(b, ts.BV(' ', 8)), ts.Eq(b, ts.BV('\t', 8)), ts.Eq(b, ts.BV('\n', 8)), ts.Eq(b, ts.BV('\r', 8)))
	}
	i, j := 0, len(data)
	for i < j && data[i].op != OpNum && it.branch(isWS(data[i])) {
		i++
	}
	for j > i && data[j-1].op != OpNum && it.branch(isWS(data[j-1])) {
		j--
	}
	if j-i < 2 || data[i].op == OpNum || data[j-1].op == OpNum {
		return fail()
	}
	if !it.branch(ts.Eq(data[i], ts.BV('"', 8))) {
		return fail()
	}
	// scan contents up to the closing quote
	k := i + 1
	for ; k < j; k++ {
		b := data[k]
		if b.op == OpNum {
			if b.a == 0 {
				panic(unsupported("JSON string with opaque segment"))
			}
			continue
		}
		if it.branch(ts.Eq(b, ts.BV('"', 8))) {
			break
		}
		if it.branch(ts.Or(ts.Eq(b, ts.BV('\\', 8)), ts.ULt(b, ts.BV(0x20, 8)))) {
			if it.branch(ts.ULt(b, ts.BV(0x20, 8))) {
				return fail() // control characters are invalid inside JSON strings
			}
			panic(unsupported("JSON string with escapes"))
		}
		if it.branch(ts.Not(ts.ULt(b, ts.BV(0x80, 8)))) {
			panic(unsupported("JSON string with non-ASCII bytes"))
		}
	}
	if k != j-1 {
		return fail() // unterminated, or trailing data after the closing quote
	}
	it.store(tgt.v.(*Ptr), strFromBytes(data[i+1:k]))
	return &IfaceV{}
}

type digestApp struct {
	kind string
	in   []*Term
	out  []*Term
}

// digestUF models a cryptographic digest as an uninterpreted function of its input bytes that is
// assumed collision-free (axiom instances are added for every pair of applications on the path).
func (it *Interp) digestUF(kind string, in []*Term, outLen int) []*Term {
	ts := it.ts
	for _, a := range it.digestApps {
		if a.kind == kind && len(a.in) == len(in) {
			same := true
			for i := range in {
				if a.in[i] != in[i] {
					same = false
					break
				}
			}
			if same {
				return a.out
			}
		}
	}
	out := make([]*Term, outLen)
	for i := range out {
		if len(in) == 0 {
			out[i] = ts.BV(uint64(0xda+i), 8)
		} else {
			out[i] = ts.UF(fmt.Sprintf("%s_%d_o%d", kind, len(in), i), 8, in...)
		}
	}
	for _, a := range it.digestApps {
		if a.kind != kind {
			continue
		}
		outEq := ts.Bool(true)
		for i := range out {
			outEq = ts.And(outEq, ts.Eq(out[i], a.out[i]))
		}
		if len(a.in) != len(in) {
			it.assume(ts.Not(outEq))
			continue
		}
		inEq := ts.Bool(true)
		for i := range in {
			inEq = ts.And(inEq, ts.Eq(in[i], a.in[i]))
		}
		it.assume(ts.Implies(outEq, inEq))
	}
	it.digestApps = append(it.digestApps, digestApp{kind, in, out})
	return out
}
