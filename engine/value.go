package main

import (
	"fmt"
	"go/types"
	"strings"

	"golang.org/x/tools/go/ssa"
)

// Value is one of:
//   *Term      bool / integer
//   FloatV     concrete float
//   *StrV      string
//   *StructV   struct (immutable)
//   *ArrayV    array (immutable)
//   *Ptr       pointer (cell + path) ; Ptr{cell:nil} is nil
//   *SliceV    slice
//   *MapV      map reference
//   *IfaceV    interface value
//   *FuncV     function value / closure
//   TupleV     multiple results
//   *ChanV     channel
//   Poison     value of a global whose initialiser could not be evaluated
type Value interface{}

type FloatV struct {
	f float64
	w int
}

type ComplexV struct{ c complex128 }

type StrV struct {
	b      []*Term // 8-bit terms (or OpNum pseudo bytes)
	conc   string
	isConc bool
	lenVar *Term // cached symbolic length if Num present
}

type StructV struct{ f []Value }
type ArrayV struct{ e []Value }

type Cell struct {
	v   Value
	id  int
	typ types.Type
	tag string
}

type Ptr struct {
	cell *Cell
	path []int
	fn   *FuncPtrTarget // unused
	sym  *Term          // symbolic element index below path (read-only table lookups)
	symN int
	symOff int
}
type FuncPtrTarget struct{}

type SliceV struct {
	cell          *Cell // holds *ArrayV ; nil for nil slice
	off, len, cap int
}

type mapEntry struct {
	k, v Value
}
type MapObj struct {
	entries []mapEntry
	id      int
}
type MapV struct{ m *MapObj }

type IfaceV struct {
	t types.Type // nil = nil interface
	v Value
}

type FuncV struct {
	fn     *ssa.Function
	binds  []Value
	native string // name of intrinsic when fn == nil
}

type TupleV []Value

type ChanV struct {
	ch *ChanObj
}
type ChanObj struct {
	buf    []Value
	cap    int
	closed bool
	id     int
}

type Poison struct{ why string }

// map iterator
type MapIter struct {
	keys []Value
	vals []Value
	pos  int
	str  *StrV // string iteration
	spos int
}

func (p *Ptr) isNil() bool { return p == nil || p.cell == nil }

func nilPtr() *Ptr { return &Ptr{} }

func concStr(s string) *StrV { return &StrV{conc: s, isConc: true} }

func (s *StrV) Len() int {
	if s.isConc {
		return len(s.conc)
	}
	return len(s.b)
}

func (s *StrV) hasNum() bool {
	if s.isConc {
		return false
	}
	for _, t := range s.b {
		if t.op == OpNum {
			return true
		}
	}
	return false
}

func (s *StrV) bytes(ts *TermStore) []*Term {
	if s.isConc {
		r := make([]*Term, len(s.conc))
		for i := 0; i < len(s.conc); i++ {
			r[i] = ts.BV(uint64(s.conc[i]), 8)
		}
		return r
	}
	return s.b
}

func strFromBytes(b []*Term) *StrV {
	allc := true
	for _, t := range b {
		if !t.IsConst() {
			allc = false
			break
		}
	}
	if allc {
		bs := make([]byte, len(b))
		for i, t := range b {
			bs[i] = byte(t.cval)
		}
		return concStr(string(bs))
	}
	cp := make([]*Term, len(b))
	copy(cp, b)
	return &StrV{b: cp}
}

func showValue(v Value) string {
	switch x := v.(type) {
	case nil:
		return "<nil>"
	case *Term:
		return x.String()
	case *StrV:
		if x.isConc {
			return fmt.Sprintf("%q", x.conc)
		}
		var sb strings.Builder
		sb.WriteString("str[")
		for i, t := range x.b {
			if i > 0 {
				sb.WriteByte(' ')
			}
			sb.WriteString(t.String())
		}
		sb.WriteString("]")
		return sb.String()
	case *StructV:
		var sb strings.Builder
		sb.WriteString("{")
		for i, f := range x.f {
			if i > 0 {
				sb.WriteString(", ")
			}
			sb.WriteString(showValue(f))
		}
		sb.WriteString("}")
		return sb.String()
	case *ArrayV:
		return fmt.Sprintf("array[%d]", len(x.e))
	case *Ptr:
		if x.isNil() {
			return "nilptr"
		}
		return fmt.Sprintf("&cell%d%v", x.cell.id, x.path)
	case *SliceV:
		return fmt.Sprintf("slice(len=%d)", x.len)
	case *MapV:
		if x.m == nil {
			return "nilmap"
		}
		return fmt.Sprintf("map(%d)", len(x.m.entries))
	case *IfaceV:
		if x.t == nil {
			return "nil-iface"
		}
		return fmt.Sprintf("iface(%s:%s)", x.t, showValue(x.v))
	case *FuncV:
		if x.fn != nil {
			return "func " + x.fn.String()
		}
		return "func <nil>"
	case TupleV:
		return fmt.Sprintf("tuple(%d)", len(x))
	case Poison:
		return "poison(" + x.why + ")"
	}
	return fmt.Sprintf("%T", v)
}

// ---------------------------------------------------------------- types

func under(t types.Type) types.Type {
	return types.Unalias(t).Underlying()
}

func intInfo(t types.Type) (w int, signed bool, ok bool) {
	b, isb := under(t).(*types.Basic)
	if !isb {
		return 0, false, false
	}
	switch b.Kind() {
	case types.Int8:
		return 8, true, true
	case types.Int16:
		return 16, true, true
	case types.Int32:
		return 32, true, true
	case types.Int64, types.Int, types.UntypedInt, types.UntypedRune:
		return 64, true, true
	case types.Uint8:
		return 8, false, true
	case types.Uint16:
		return 16, false, true
	case types.Uint32:
		return 32, false, true
	case types.Uint64, types.Uint, types.Uintptr:
		return 64, false, true
	}
	return 0, false, false
}

func isBool(t types.Type) bool {
	b, ok := under(t).(*types.Basic)
	return ok && b.Info()&types.IsBoolean != 0
}
func isString(t types.Type) bool {
	b, ok := under(t).(*types.Basic)
	return ok && b.Info()&types.IsString != 0
}
func isFloat(t types.Type) bool {
	b, ok := under(t).(*types.Basic)
	return ok && b.Info()&types.IsFloat != 0
}
func isComplex(t types.Type) bool {
	b, ok := under(t).(*types.Basic)
	return ok && b.Info()&types.IsComplex != 0
}

func (it *Interp) zero(t types.Type) Value {
	switch u := under(t).(type) {
	case *types.Basic:
		if w, _, ok := intInfo(u); ok {
			return it.ts.BV(0, w)
		}
		switch {
		case u.Info()&types.IsBoolean != 0:
			return it.ts.Bool(false)
		case u.Info()&types.IsString != 0:
			return concStr("")
		case u.Info()&types.IsFloat != 0:
			return FloatV{0, 64}
		case u.Info()&types.IsComplex != 0:
			return ComplexV{0}
		case u.Kind() == types.UnsafePointer:
			return nilPtr()
		case u.Kind() == types.UntypedNil:
			return nil
		}
		panic(unsupported("zero of basic " + u.String()))
	case *types.Pointer:
		return nilPtr()
	case *types.Slice:
		return &SliceV{}
	case *types.Map:
		return &MapV{}
	case *types.Interface:
		return &IfaceV{}
	case *types.Signature:
		return &FuncV{}
	case *types.Chan:
		return &ChanV{}
	case *types.Struct:
		f := make([]Value, u.NumFields())
		for i := range f {
			f[i] = it.zero(u.Field(i).Type())
		}
		return &StructV{f}
	case *types.Array:
		n := int(u.Len())
		if n > 1<<16 {
			panic(unsupported("huge array"))
		}
		e := make([]Value, n)
		if n > 0 {
			z := it.zero(u.Elem())
			for i := range e {
				e[i] = z
			}
		}
		return &ArrayV{e}
	case *types.Tuple:
		r := make(TupleV, u.Len())
		for i := range r {
			r[i] = it.zero(u.At(i).Type())
		}
		return r
	}
	panic(unsupported("zero of " + t.String()))
}
