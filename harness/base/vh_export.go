//go:build verif

package base

// VhBuildVersion gives harnesses in other packages a non-empty build version (its fields are unexported).
func VhBuildVersion() ComparableBuildVersion {
	return ComparableBuildVersion{major: 4, str: "4.0.0"}
}
