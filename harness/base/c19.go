//go:build verif

package base

// C19 — document bodies come back exactly as written: the byte splice that adds _id/_rev/... to a
// stored body. The stored body is an arbitrary byte string that is structurally a JSON object:
// ws* '{' inner '}' ws*, where inner is either only whitespace (an empty object) or starts and ends
// with the bytes the JSON grammar allows there (first member's opening quote; end of a value); the members are opaque.

func vhIsWS(c byte) bool { return c == ' ' || c == '\t' || c == '\n' || c == '\r' }

type vhObj struct {
	b                  []byte
	open, close        int // positions of '{' and '}'
	innerLead, innerTr int
	empty              bool
}

func vhNondetObject(maxLen int) vhObj {
	n := vNondetRange(2, maxLen)
	b := vNondetBytes(n)
	lead := vNondetRange(0, n-2)
	trail := vNondetRange(0, n-2-lead)
	o := vhObj{b: b, open: lead, close: n - 1 - trail}
	for i := 0; i < lead; i++ {
		vAssume(vhIsWS(b[i]))
	}
	for i := o.close + 1; i < n; i++ {
		vAssume(vhIsWS(b[i]))
	}
	vAssume(b[o.open] == '{' && b[o.close] == '}')
	m := o.close - o.open - 1
	o.innerLead = vNondetRange(0, m)
	o.innerTr = vNondetRange(0, m-o.innerLead)
	for i := 0; i < o.innerLead; i++ {
		vAssume(vhIsWS(b[o.open+1+i]))
	}
	for i := 0; i < o.innerTr; i++ {
		vAssume(vhIsWS(b[o.close-1-i]))
	}
	if o.innerLead+o.innerTr == m {
		o.empty = true
	} else {
		first := b[o.open+1+o.innerLead]
		last := b[o.close-1-o.innerTr]
		// JSON grammar: the first member starts with its quoted key; a value ends with '"', a digit, '}', ']' or the
		// last letter of true/false/null
		vAssume(first == '"')
		vAssume(last == '"' || last == '}' || last == ']' || last == 'e' || last == 'l' || (last >= '0' && last <= '9'))
	}
	return o
}

func vhBytesEq(a, b []byte) bool {
	if len(a) != len(b) {
		return false
	}
	eq := true
	for i := range a {
		if a[i] != b[i] {
			eq = false
		}
	}
	return eq
}

func vhCat(parts ...[]byte) []byte {
	var r []byte
	for _, p := range parts {
		r = append(r, p...)
	}
	return r
}

func vhCheckSplice(o vhObj, orig []byte, out []byte, injected []byte, tag string) {
	vAssert(vhBytesEq(o.b, orig), tag+": input bytes are not modified")
	inner := orig[o.open+1 : o.close]
	if o.empty {
		vCover(tag + ": empty object")
		exact := vhCat([]byte("{"), inner, injected, []byte("}"))
		compact := vhCat([]byte("{"), injected, []byte("}"))
		vAssert(vhBytesEq(out, exact) || vhBytesEq(out, compact), tag+": empty object yields exactly the injected members (valid JSON)")
	} else {
		vCover(tag + ": non-empty object")
		want := vhCat([]byte("{"), inner, []byte(","), injected, []byte("}"))
		vAssert(vhBytesEq(out, want), tag+": original members byte-identical, followed by the injected ones")
	}
}

// VHarness_C19_InjectBytes: InjectJSONPropertiesFromBytes with one or two pre-marshalled values.
func VHarness_C19_InjectBytes() {
	o := vhNondetObject(vParam("maxlen", 6))
	orig := append([]byte{}, o.b...)
	v1 := vNondetBytes(vNondetRange(1, 2))
	kvs := []KVPairBytes{{Key: "_id", Val: v1}}
	injected := vhCat([]byte(`"_id":`), v1)
	if vNondetBool() {
		v2 := vNondetBytes(1)
		kvs = append(kvs, KVPairBytes{Key: "r", Val: v2})
		injected = vhCat(injected, []byte(`,"r":`), v2)
	}
	out, err := InjectJSONPropertiesFromBytes(o.b, kvs...)
	vAssert(err == nil, "InjectJSONPropertiesFromBytes accepts an object")
	vhCheckSplice(o, orig, out, injected, "FromBytes")
}

// VHarness_C19_InjectValues: InjectJSONProperties with int / bool values (formatted by the function).
func VHarness_C19_InjectValues() {
	o := vhNondetObject(vParam("maxlen", 6))
	orig := append([]byte{}, o.b...)
	out, err := InjectJSONProperties(o.b, KVPair{Key: "_deleted", Val: true}, KVPair{Key: "n", Val: 42})
	vAssert(err == nil, "InjectJSONProperties accepts an object")
	vhCheckSplice(o, orig, out, []byte(`"_deleted":true,"n":42`), "Values")
}

// VHarness_C19_NotObject: anything that is not '{'...'}' after trimming is rejected, never spliced.
func VHarness_C19_NotObject() {
	n := vNondetRange(0, vParam("maxlen", 4))
	b := vNondetBytes(n)
	isObj := false
	// reference: trim ASCII JSON whitespace plus the other bytes.TrimSpace characters (\v \f 0x85 0xA0 excluded: assume ASCII input)
	for i := 0; i < n; i++ {
		vAssume(b[i] < 0x80 && b[i] != '\v' && b[i] != '\f')
	}
	lo, hi := 0, n
	for lo < hi && vhIsWS(b[lo]) {
		lo++
	}
	for hi > lo && vhIsWS(b[hi-1]) {
		hi--
	}
	if hi-lo >= 2 && b[lo] == '{' && b[hi-1] == '}' {
		isObj = true
	}
	out, err := InjectJSONPropertiesFromBytes(b, KVPairBytes{Key: "k", Val: []byte("1")})
	if !isObj {
		vAssert(err != nil && out == nil, "non-object input is rejected")
	} else {
		vAssert(err == nil, "object input is accepted")
	}
}
