//go:build verif

package db

import (
	"context"
	"errors"

	sgbucket "github.com/couchbase/sg-bucket"
	"github.com/couchbase/sync_gateway/base"
	"github.com/couchbase/sync_gateway/channels"
)

// C06 (reduced) — the decisions a replication run is built from: which offered changes are asked for
// (CheckChangeVersion, RevDiff), whether a proposed push is new / already present / a conflict
// (CheckProposedRev, CheckProposedVersion), and which side wins a conflict (default resolvers).
// The receiver's document is whatever the harness hands back from GetDocSyncDataNoImport (redirected).

var (
	vhC06Sync *SyncData
	vhC06HLV  *HybridLogicalVector
	vhC06Err  error
)

func vhC06GetDocSyncData(c *DatabaseCollection, ctx context.Context, docid string, level DocumentUnmarshalLevel) (*SyncData, *HybridLogicalVector, error) {
	return vhC06Sync, vhC06HLV, vhC06Err
}

func vhC06Collection() *DatabaseCollectionWithUser {
	return &DatabaseCollectionWithUser{DatabaseCollection: &DatabaseCollection{}}
}

// vhC06LocalHLV: an arbitrary well-formed vector over sources A,B,C: current version at source c, the others
// absent or in previous versions (or, together, in merge versions). vv is the classic vector it denotes.
func vhC06LocalHLV() (h *HybridLogicalVector, vv [3]uint64, c int) {
	c = vNondetRange(0, 2)
	h = NewHybridLogicalVector()
	h.SourceID = vhSources[c]
	h.Version = vNondetU64()
	vAssume(h.Version > 0)
	vv[c] = h.Version
	asMV := vNondetBool()
	n := 0
	for i := 0; i < 3; i++ {
		if i == c || !vNondetBool() {
			continue
		}
		v := vNondetU64()
		vAssume(v > 0)
		vv[i] = v
		n++
		if asMV {
			h.MergeVersions[vhSources[i]] = v
		} else {
			h.PreviousVersions[vhSources[i]] = v
		}
	}
	vAssume(!asMV || n == 2) // merge versions come in pairs
	return h, vv, c
}

// VHarness_C06_ChangeVersion: an offered change (source, value) is asked for exactly when the receiver's vector does
// not already cover it; a caught-up receiver asks for nothing.
func VHarness_C06_ChangeVersion() {
	ctx := context.Background()
	h, vv, _ := vhC06LocalHLV()
	vhC06HLV = h
	vhC06Sync = &SyncData{}
	vhC06Sync.RevAndVersion = channels.RevAndVersion{RevTreeID: "3-abc"}
	vhC06Err = nil
	s := vNondetRange(0, 2)
	x := vNondetU64()
	vAssume(x > 0)
	rev := Version{SourceID: vhSources[s], Value: x}.String()
	missing, possible := vhC06Collection().CheckChangeVersion(ctx, "doc", rev)
	known := vv[s] >= x
	if known {
		vCover("change-known")
		vAssert(len(missing) == 0, "a change the receiver's vector already covers is not requested again")
		vAssert(len(possible) == 0, "no ancestors are reported for a change that is not requested")
	} else {
		vCover("change-missing")
		vAssert(len(missing) == 1 && missing[0] == rev, "a change the receiver's vector does not cover is requested")
		vAssert(len(possible) == 2 && possible[0] == h.GetCurrentVersionString() && possible[1] == "3-abc",
			"the receiver reports its current version and revision as the known ancestor")
	}
}

// VHarness_C06_ChangeVersionNoDoc: without a local document (or on a read error) the change is requested.
func VHarness_C06_ChangeVersionNoDoc() {
	ctx := context.Background()
	vhC06HLV, vhC06Sync = nil, nil
	if vNondetBool() {
		vhC06Err = sgbucket.MissingError{Key: "doc"}
	} else {
		vhC06Err = errors.New("verif: injected read error")
	}
	rev := Version{SourceID: "A", Value: vNondetU64()}.String()
	missing, _ := vhC06Collection().CheckChangeVersion(ctx, "doc", rev)
	vAssert(len(missing) == 1 && missing[0] == rev, "a change for a document the receiver cannot read is requested")
}

// ---- revision-tree negotiation

var vhC06Pool = [6]string{"1-a", "2-b", "2-c", "3-d", "3-e", "4-f"}

// vhC06Tree: a tree over a prefix-closed subset of the pool: 1-a root; 2-b, 2-c children of 1-a; 3-d child of 2-b;
// 3-e child of 2-c; 4-f child of 3-d.
func vhC06Tree() (RevTree, [6]bool) {
	parent := [6]int{-1, 0, 0, 1, 2, 3}
	var in [6]bool
	in[0] = true
	t := RevTree{}
	t["1-a"] = &RevInfo{ID: "1-a"}
	for i := 1; i < 6; i++ {
		if in[parent[i]] && vNondetBool() {
			in[i] = true
			t[vhC06Pool[i]] = &RevInfo{ID: vhC06Pool[i], Parent: vhC06Pool[parent[i]]}
		}
	}
	return t, in
}

func vhC06GenOf(revid string) int { return int(revid[0] - '0') }

// VHarness_C06_RevDiff: of the offered revision ids exactly those absent from the receiver's tree are reported
// missing (in order), and every suggested ancestor is a revision the receiver has and is older than some missing revision.
func VHarness_C06_RevDiff() {
	ctx := context.Background()
	tree, in := vhC06Tree()
	vhC06Sync = &SyncData{History: tree}
	vhC06HLV, vhC06Err = nil, nil
	// offered: two ids, each from the pool or an unknown id with a symbolic generation digit
	var offered []string
	var known []bool
	for k := 0; k < 2; k++ {
		if vNondetBool() {
			i := vNondetRange(0, 5)
			offered = append(offered, vhC06Pool[i])
			known = append(known, in[i])
		} else {
			g := vNondetU8()
			vAssume(g >= '1' && g <= '9')
			offered = append(offered, string([]byte{g})+"-zz"+string([]byte{'0' + byte(k)}))
			known = append(known, false)
		}
	}
	vAssume(offered[0] != offered[1])
	vMapOrder(1)
	missing, possible := vhC06Collection().RevDiff(ctx, "doc", offered)
	vMapOrder(0)
	n := 0
	for k, id := range offered {
		if !known[k] {
			vAssert(n < len(missing) && missing[n] == id, "an offered revision the receiver lacks is reported missing")
			n++
		}
	}
	vAssert(len(missing) == n, "a revision the receiver already has is never reported missing (caught-up replication transfers nothing)")
	if n == 0 {
		vCover("revdiff-caught-up")
		vAssert(len(possible) == 0, "no ancestors suggested when nothing is missing")
	}
	for _, p := range possible {
		vAssert(tree.contains(p), "a suggested ancestor is a revision the receiver has")
		older := false
		for k, id := range offered {
			if !known[k] && vhC06GenOf(p) < vhC06GenOf(id) {
				older = true
			}
		}
		vAssert(older, "a suggested ancestor is older than some missing revision")
	}
}

// VHarness_C06_ProposedRev: a proposed push is accepted only when it extends the receiver's current revision
// (or the document is absent / deleted and the push starts a new history), is reported as present exactly when it
// is the current revision, and is a conflict (naming the current revision) otherwise.
func VHarness_C06_ProposedRev() {
	ctx := context.Background()
	cur := vhC06Pool[vNondetRange(0, 5)]
	revid := vhC06Pool[vNondetRange(0, 5)]
	parent := ""
	if vNondetBool() {
		parent = vhC06Pool[vNondetRange(0, 5)]
	}
	deleted := vNondetBool()
	vhC06Sync = &SyncData{}
	vhC06Sync.RevAndVersion = channels.RevAndVersion{RevTreeID: cur}
	if deleted {
		vhC06Sync.Flags |= channels.Deleted
	}
	vhC06HLV = nil
	mode := vNondetRange(0, 2)
	switch mode {
	case 0:
		vhC06Err = nil
	case 1:
		vhC06Err, vhC06Sync = sgbucket.MissingError{Key: "doc"}, nil
	case 2:
		vhC06Err, vhC06Sync = errors.New("verif: injected read error"), nil
	}
	status, currentRev := vhC06Collection().CheckProposedRev(ctx, "doc", revid, parent)
	switch mode {
	case 1:
		vAssert(status == ProposedRev_OK_IsNew, "a push for a document the receiver does not have is accepted as new")
	case 2:
		vAssert(status == ProposedRev_Error, "a read error is reported as an error, not as acceptance")
	case 0:
		extends := parent == cur || (parent == "" && deleted)
		if revid == cur {
			vCover("proposed-exists")
			vAssert(status == ProposedRev_Exists, "a revision the receiver already has as current is reported present (not transferred again)")
		} else if extends {
			vCover("proposed-ok")
			vAssert(status == ProposedRev_OK, "a revision extending the receiver's current revision is accepted")
		} else {
			vCover("proposed-conflict")
			vAssert(status == ProposedRev_Conflict && currentRev == cur, "a revision that does not extend the current revision is a conflict naming the current revision")
		}
	}
}

// VHarness_C06_ProposedVersion: with the client contract (previousRev is the current version of the proposed
// revision's parent and the proposed vector contains it), "OK" is reported only for a revision that descends from
// the receiver's current version, "exists" only when the receiver already covers the proposed version, and a
// revision that neither descends nor is covered is a conflict naming the receiver's current version.
func VHarness_C06_ProposedVersion() {
	ctx := context.Background()
	L, lvv, c := vhC06LocalHLV()
	vhC06HLV = L
	vhC06Sync = &SyncData{}
	vhC06Sync.RevAndVersion = channels.RevAndVersion{RevTreeID: "3-abc"}
	vhC06Err = nil
	// proposed revision: current version (s,x); its vector P (classic form pvv) has P[s] == x
	s := vNondetRange(0, 2)
	var pvv [3]uint64
	P := NewHybridLogicalVector()
	for i := 0; i < 3; i++ {
		if i == s || vNondetBool() {
			pvv[i] = vNondetU64()
			vAssume(pvv[i] > 0)
		}
	}
	P.SourceID, P.Version = vhSources[s], pvv[s]
	for i := 0; i < 3; i++ {
		if i != s && pvv[i] > 0 {
			P.PreviousVersions[vhSources[i]] = pvv[i]
		}
	}
	proposed := Version{SourceID: vhSources[s], Value: pvv[s]}
	// parent's current version, contained in P (contract); empty when the revision has no parent
	prev := ""
	if vNondetBool() {
		ps := vNondetRange(0, 2)
		px := vNondetU64()
		vAssume(px > 0 && pvv[ps] >= px)
		vAssume(!(ps == s && px == pvv[s])) // the parent is not the proposed version itself
		prev = Version{SourceID: vhSources[ps], Value: px}.String()
	}
	wire := P.GetCurrentVersionString()
	vMapOrder(1)
	if hist := P.ToHistoryForHLV(); hist != "" {
		wire = wire + ";" + hist
	}
	vMapOrder(0)
	status, current := vhC06Collection().CheckProposedVersion(ctx, "doc", proposed.String(), prev, wire)
	descends := pvv[c] >= lvv[c] // the proposed revision's history contains the receiver's current version
	covered := lvv[s] >= pvv[s]  // the receiver already has the proposed version
	switch status {
	case ProposedRev_OK:
		vCover("version-ok")
		vAssert(descends, "a proposed version is accepted only if it descends from the receiver's current version")
	case ProposedRev_Exists:
		vCover("version-exists")
		vAssert(covered, "a proposed version is reported present only if the receiver's vector covers it")
	case ProposedRev_Conflict:
		vCover("version-conflict")
		vAssert(!descends || covered, "a proposed version that descends from the receiver's current version and is new is not a conflict")
		vAssert(current == (Version{SourceID: vhSources[c], Value: lvv[c]}).String(), "a conflict names the receiver's current version")
	default:
		vFail("unexpected status for a readable document and well-formed versions")
	}
	if descends && !covered {
		vAssert(status == ProposedRev_OK, "a new revision descending from the receiver's current version is accepted")
	}
}

// VHarness_C06_DefaultResolver: the default (revision-tree) policy picks one of the two revisions, prefers a
// tombstone, otherwise the higher (generation, digest); both orientations of the same conflict pick the same revision;
// Resolve classifies the outcome as local or remote accordingly.
func VHarness_C06_DefaultResolver() {
	ctx := context.Background()
	mk := func(tag string) (Body, bool, string) {
		g := vNondetU8()
		vAssume(g >= '1' && g <= '9')
		d := vNondetU8()
		vAssume(d >= 'a' && d <= 'f')
		rev := string([]byte{g, '-', d})
		del := vNondetBool()
		b := Body{BodyRev: rev, "tag": tag}
		if del {
			b[BodyDeleted] = true
		}
		return b, del, rev
	}
	x, xDel, xRev := mk("x")
	y, yDel, yRev := mk("y")
	vAssume(xRev != yRev)
	r := NewConflictResolver(DefaultConflictResolver, nil)
	w1, t1, err1 := r.Resolve(ctx, Conflict{LocalDocument: x, RemoteDocument: y})
	w2, t2, err2 := r.Resolve(ctx, Conflict{LocalDocument: y, RemoteDocument: x})
	vAssert(err1 == nil && err2 == nil, "the default policy always resolves")
	tag1, _ := w1["tag"].(string)
	tag2, _ := w2["tag"].(string)
	vAssert(tag1 == "x" || tag1 == "y", "the winner is one of the two conflicting revisions")
	vAssert(tag1 == tag2, "both sides of the same conflict pick the same winner")
	vAssert((t1 == ConflictResolutionLocal) == (tag1 == "x") && (t1 == ConflictResolutionRemote) == (tag1 == "y"), "the outcome is classified local/remote according to the winner")
	vAssert((t2 == ConflictResolutionLocal) == (tag2 == "y") && (t2 == ConflictResolutionRemote) == (tag2 == "x"), "the outcome is classified local/remote according to the winner (other orientation)")
	if xDel != yDel {
		vCover("tombstone-wins")
		vAssert((tag1 == "x") == xDel, "a tombstone wins over a live revision")
	} else {
		xWins := xRev[0] > yRev[0] || (xRev[0] == yRev[0] && xRev[2] > yRev[2])
		vAssert((tag1 == "x") == xWins, "otherwise the higher (generation, digest) wins")
	}
}

// VHarness_C06_LWWResolver: the version-vector default policy picks one of the two, prefers a tombstone, otherwise the
// higher current version value; both orientations agree whenever the two current version values differ.
func VHarness_C06_LWWResolver() {
	ctx := context.Background()
	xv, yv := vNondetU64(), vNondetU64()
	xDel, yDel := vNondetBool(), vNondetBool()
	mk := func(tag string, del bool) Body {
		b := Body{"tag": tag}
		if del {
			b[BodyDeleted] = true
		}
		return b
	}
	x, y := mk("x", xDel), mk("y", yDel)
	hx := &HybridLogicalVector{SourceID: "A", Version: xv}
	hy := &HybridLogicalVector{SourceID: "B", Version: yv}
	w1, err1 := DefaultLWWConflictResolutionType(ctx, Conflict{LocalDocument: x, RemoteDocument: y, LocalHLV: hx, RemoteHLV: hy})
	w2, err2 := DefaultLWWConflictResolutionType(ctx, Conflict{LocalDocument: y, RemoteDocument: x, LocalHLV: hy, RemoteHLV: hx})
	vAssert(err1 == nil && err2 == nil, "the default policy always resolves")
	tag1, _ := w1["tag"].(string)
	tag2, _ := w2["tag"].(string)
	vAssert(tag1 == "x" || tag1 == "y", "the winner is one of the two conflicting revisions")
	if xDel != yDel {
		vAssert((tag1 == "x") == xDel && tag2 == tag1, "a tombstone wins over a live revision on both sides")
	} else if xv != yv {
		vCover("lww-ordered")
		vAssert((tag1 == "x") == (xv > yv) && tag2 == tag1, "the later current version wins on both sides")
	}
}

var _ = base.SetOf
