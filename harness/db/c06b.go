//go:build verif

package db

import (
	"context"
)

// C06 (reduced) — local-wins resolution of a version-vector conflict (resolveLocalWinsHLV), the step that runs inside
// the document write callback, which the compare-and-swap loop may run again on a newer state: the vector it returns
// keeps the local current version and knows everything either side had seen, and the incoming document's own vector -
// which a re-run of the callback reads again - is left exactly as it arrived.

func vhC06bRevTreeHandling(ctx context.Context, localDoc, remoteDoc *Document, docBodyBytes []byte, docHistory []string) (string, []string) {
	return "2-new", docHistory
}

func vhC06bDocHandling(ctx context.Context, localDoc, remoteDoc *Document, docHistory []string, docBodyBytes []byte, newRevID string) {
}

func vhC06bTombstone(db *DatabaseCollectionWithUser, ctx context.Context, doc *Document, revID string) (string, error) {
	return "2-tomb", nil
}

func vhC06bRevCacheRemove(c *collectionRevisionCache, ctx context.Context, docID, versionString string) {}

func vhC06bBodyBytes(doc *Document, ctx context.Context) ([]byte, error) { return []byte("{}"), nil }

func vhC06bSnapshot(h *HybridLogicalVector) (cvSrc string, cv uint64, vv [3]uint64, npv, nmv int) {
	for i, s := range vhSources {
		if h.SourceID == s {
			vv[i] = h.Version
		}
		if v, ok := h.PreviousVersions[s]; ok {
			vv[i] = v
		}
		if v, ok := h.MergeVersions[s]; ok {
			vv[i] = v
		}
	}
	return h.SourceID, h.Version, vv, len(h.PreviousVersions), len(h.MergeVersions)
}

func VHarness_C06_LocalWinsVector() {
	ctx := context.Background()
	col := vhC06Collection()
	local, lvv, lc := vhC06LocalHLV()
	remote, rvv, rc := vhC06LocalHLV()
	// a genuine conflict: different current versions, neither side has seen the other's
	vAssume(lc != rc)
	vAssume(lvv[rc] < rvv[rc] && rvv[lc] < lvv[lc])
	localDoc := &Document{ID: "doc", HLV: local}
	localDoc.SetRevTreeID("1-a")
	remoteDoc := &Document{ID: "doc", HLV: remote, RevID: "1-b"}
	inSrc, inCV, inVV, inPV, inMV := vhC06bSnapshot(remote)

	newHLV, _, err := col.resolveLocalWinsHLV(ctx, localDoc, remoteDoc, []string{"1-b"})
	vAssert(err == nil && newHLV != nil, "local-wins resolution succeeds")
	if err != nil || newHLV == nil {
		return
	}
	// the incoming vector is untouched (a re-run of the write callback starts from it again)
	s, cv, vv, npv, nmv := vhC06bSnapshot(remoteDoc.HLV)
	vAssert(s == inSrc && cv == inCV && vv == inVV && npv == inPV && nmv == inMV, "the incoming document's vector is left as it arrived (the write callback may run again)")
	vAssert(newHLV != remoteDoc.HLV, "the resolved vector is a vector of its own")
	// the resolved vector: local current version wins, and it covers both inputs
	vAssert(newHLV.SourceID == local.SourceID && newHLV.Version == local.Version, "local wins: the resolved vector keeps the local current version")
	_, _, nvv, _, _ := vhC06bSnapshot(newHLV)
	for i := range nvv {
		want := lvv[i]
		if rvv[i] > want {
			want = rvv[i]
		}
		vAssert(nvv[i] == want, "the resolved vector records, per source, the newest version either side had seen")
	}
}
