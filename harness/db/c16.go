//go:build verif

package db

import (
	"container/list"
	"context"
	"errors"

	"github.com/couchbase/sync_gateway/base"
)

// C16 — the revision cache returns what the bucket holds and accounts for itself exactly.
//
// Bounded symbolic history: k operations (Get / GetActive / Put / Upsert / Remove / Peek / LRU eviction) on a
// cache of capacity 1..2 over two documents, each with one current revision in the "bucket". The backing
// store is a harness implementation whose loads may fail and which may, from inside a load, re-enter the
// cache with another operation (the point where a concurrent invalidation can interleave).

var vhErrLoad = errors.New("verif: injected load failure")

type vhBucketDoc struct {
	id       string
	cv       Version
	revID    string
	body     []byte
	channels base.Set
}

type vhBacking struct {
	rc        *LRURevisionCache
	docs      map[string]*vhBucketDoc
	faults    bool
	reenter   int // number of re-entrant operations still allowed
	loads     int
	loadFails int
	altKey    bool // requests for the first document spell its version in a non-canonical form the parser accepts
}

// reqKey is the version string a request for d carries: the canonical form, or (altKey) the same version with a leading
// zero, which ParseVersion reads as the same version.
func (b *vhBacking) reqKey(d *vhBucketDoc) string {
	if b.altKey && d.id == vhDocIDs[0] {
		return "0" + d.cv.String()
	}
	return d.cv.String()
}

func (b *vhBacking) toDocument(d *vhBucketDoc) *Document {
	doc := NewDocument(d.id)
	doc.HLV = &HybridLogicalVector{SourceID: d.cv.SourceID, Version: d.cv.Value}
	doc.SetRevTreeID(d.revID)
	doc.History[d.revID] = &RevInfo{ID: d.revID}
	doc._rawBody = d.body
	return doc
}

func (b *vhBacking) GetDocument(ctx context.Context, docid string, level DocumentUnmarshalLevel) (*Document, error) {
	b.loads++
	if b.reenter > 0 && vNondetBool() {
		// another request runs completely while this load is in flight
		b.reenter--
		op, di := vNondetRange(0, 6), vNondetRange(0, 1)
		// a request for the same document that needs the value's own lock (Get / GetActive / Put) would block until
		// this load finishes, i.e. run after it: that schedule is one of the sequential histories
		vAssume(!(vhDocIDs[di] == docid && op <= 2))
		vhCacheOp(b, op, di, true)
	}
	// the load may fail after the other request ran
	if b.faults && vNondetBool() {
		b.loadFails++
		return nil, vhErrLoad
	}
	d, ok := b.docs[docid]
	if !ok {
		return nil, base.ErrNotFound
	}
	return b.toDocument(d), nil
}

func (b *vhBacking) getRevision(ctx context.Context, doc *Document, revid string) ([]byte, AttachmentsMeta, base.Set, error) {
	d, ok := b.docs[doc.ID]
	if !ok || d.revID != revid {
		return nil, nil, nil, ErrMissing
	}
	return d.body, nil, d.channels, nil
}

func (b *vhBacking) getCurrentVersion(ctx context.Context, doc *Document, cv Version, loadBackup bool) ([]byte, AttachmentsMeta, base.Set, bool, error) {
	d, ok := b.docs[doc.ID]
	if !ok || !d.cv.Equal(cv) {
		return nil, nil, nil, false, ErrMissing
	}
	return d.body, nil, d.channels, false, nil
}

var vhDocIDs = [2]string{"d1", "d2"}

func vhDocRev(d *vhBucketDoc) DocumentRevision {
	cv := d.cv
	ids := []string{"a"}
	if vParam("puthistory", 0) == 1 && vNondetBool() {
		// the writer's copy of the same revision may carry a longer history list than the loader's
		ids = []string{"a", "0"}
	}
	return DocumentRevision{DocID: d.id, RevID: d.revID, CV: &cv, BodyBytes: d.body, Channels: d.channels,
		History: Revisions{RevisionsStart: 1, RevisionsIds: ids}}
}

// vhCacheOp performs operation op on document di and checks its result against the bucket.
func vhCacheOp(b *vhBacking, op int, di int, nested bool) {
	ctx := context.Background()
	rc := b.rc
	d := b.docs[vhDocIDs[di]]
	key := b.reqKey(d)
	switch op {
	case 0: // Get by CV
		failsBefore := b.loadFails
		rev, _, err := rc.Get(ctx, d.id, key, 0, false)
		if err == nil {
			vCover("get-ok")
			vAssert(rev.DocID == d.id && vhSameBytes(rev.BodyBytes, d.body), "Get returns the bucket's body for the revision")
			vAssert(vhSameSet(rev.Channels, d.channels), "Get returns the bucket's channels for the revision")
			vAssert(rev.CV != nil && rev.CV.Equal(d.cv), "Get returns the requested version")
		} else {
			vAssert(b.loadFails > failsBefore, "Get fails only when its own load failed (a failure is not cached)")
			if e, cached := rc.cache[CreateRevisionCacheKey(d.id, key, 0)]; cached {
				// the key may have been re-populated by the other request; the failed placeholder itself must be gone
				v := e.Value.(*revCacheValue)
				vAssert(v.err == nil && v.bodyBytes != nil, "nothing is cached for a failed load")
			}
		}
	case 1: // GetActive
		failsBefore := b.loadFails
		rev, _, err := rc.GetActive(ctx, d.id, 0)
		if err == nil {
			vAssert(rev.DocID == d.id && vhSameBytes(rev.BodyBytes, d.body), "GetActive returns the bucket's current body")
			vAssert(vhSameSet(rev.Channels, d.channels), "GetActive returns the bucket's current channels")
		} else {
			vAssert(b.loadFails > failsBefore, "GetActive fails only when its own load failed")
		}
	case 2: // Put (after a write: the new revision is put in the cache)
		vAssert(rc.Put(ctx, vhDocRev(d), 0) == nil, "Put accepts a complete revision")
	case 3: // Upsert
		vAssert(rc.Upsert(ctx, vhDocRev(d), 0) == nil, "Upsert accepts a complete revision")
	case 4: // Remove (invalidation)
		rc.Remove(ctx, d.id, key, 0)
		_, found := rc.Peek(ctx, d.id, key, 0)
		vAssert(!found, "a removed revision is not served from the cache")
	case 5: // Peek
		rev, found := rc.Peek(ctx, d.id, key, 0)
		if found {
			vAssert(vhSameBytes(rev.BodyBytes, d.body) && vhSameSet(rev.Channels, d.channels), "Peek serves the bucket's revision")
		}
	case 6: // memory-based eviction step
		if bytes, ok := rc.evictLRUTail(); ok && bytes > 0 {
			rc.memoryController.decrementBytesCount(bytes)
		}
	}
}

func vhSameBytes(a, b []byte) bool {
	if len(a) != len(b) {
		return false
	}
	eq := true
	for i := range a {
		if a[i] != b[i] {
			eq = false
		}
	}
	return eq
}

func vhSameSet(a, b base.Set) bool {
	if len(a) != len(b) {
		return false
	}
	for k := range a {
		if _, ok := b[k]; !ok {
			return false
		}
	}
	return true
}

// vhCacheInvariant: gauges equal the real contents; map and list are in bijection; capacity respected.
func vhCacheInvariant(b *vhBacking, tag string) {
	rc := b.rc
	n := len(rc.cache)
	vAssert(rc.lruList.Len() == n, tag+": LRU list and lookup map have the same number of entries")
	vAssert(rc.cacheNumItems.Value() == int64(n), tag+": item gauge equals the number of cached entries")
	vAssert(n <= int(rc.capacity), tag+": cache within its item capacity")
	var bytes int64
	for k, e := range rc.cache {
		v := e.Value.(*revCacheValue)
		vAssert(v.itemKey == k, tag+": map entry points at the list element of the same key")
		if v.memState.Load() == memStateSized {
			bytes += v.itemBytes.Load()
		}
		vAssert(v.memState.Load() != memStateRemoved, tag+": a removed value is not reachable from the cache")
		if v.bodyBytes != nil {
			d := b.docs[v.id]
			vAssert(vhSameBytes(v.bodyBytes, d.body) && vhSameSet(v.channels, d.channels), tag+": cached revision equals the bucket's revision")
			vAssert(v.memState.Load() == memStateSized, tag+": a loaded value is accounted")
		}
	}
	vAssert(rc.memoryController.bytesInUseForShard.Load() == bytes, tag+": byte gauge equals the sum over accounted entries")
	vAssert(rc.memoryController.globalUsageStat.Value() == bytes, tag+": global byte stat equals the sum over accounted entries")
	for e := rc.lruList.Front(); e != nil; e = e.Next() {
		v := e.Value.(*revCacheValue)
		me, ok := rc.cache[v.itemKey]
		vAssert(ok && me == e, tag+": every list element is the map's element for its key")
	}
}

func vhNewRevCache(capacity int, faults bool, reenter int) *vhBacking {
	b := &vhBacking{docs: map[string]*vhBucketDoc{}, faults: faults, reenter: reenter}
	for i, id := range vhDocIDs {
		body := vNondetBytes(i + 1) // distinct sizes, symbolic contents
		chans := base.Set{}
		if i == 0 {
			chans["A"] = struct{}{}
		}
		b.docs[id] = &vhBucketDoc{id: id, cv: Version{SourceID: "S", Value: uint64(i + 1)}, revID: "1-a", body: body, channels: chans}
	}
	mc := newCacheMemoryController(0, &base.SgwIntStat{})
	b.rc = &LRURevisionCache{
		cache:            map[revCacheKey]*list.Element{},
		lruList:          list.New(),
		capacity:         uint32(capacity),
		backingStores:    map[uint32]RevisionCacheBackingStore{0: b},
		cacheHits:        &base.SgwIntStat{},
		cacheMisses:      &base.SgwIntStat{},
		cacheNumItems:    &base.SgwIntStat{},
		memoryController: mc,
	}
	return b
}

// VHarness_C16_History: k operations from the empty cache; invariant after each.
func VHarness_C16_History() {
	capacity := vNondetRange(1, 2)
	b := vhNewRevCache(capacity, vParam("faults", 1) == 1, vParam("reenter", 1))
	b.altKey = vParam("altkey", 1) == 1 && vNondetBool()
	if b.altKey {
		b.reenter = 0 // bound: non-canonical spellings are explored in sequential histories (with load failures) only
	}
	k := vParam("ops", 3)
	for i := 0; i < k; i++ {
		op := vNondetRange(0, 6)
		di := vNondetRange(0, 1)
		vhCacheOp(b, op, di, false)
		vhCacheInvariant(b, "after op")
	}
	// emptying the cache returns both gauges to zero
	for _, id := range vhDocIDs {
		b.rc.Remove(context.Background(), id, b.docs[id].cv.String(), 0)
		b.rc.Remove(context.Background(), id, b.reqKey(b.docs[id]), 0)
		b.rc.Remove(context.Background(), id, b.docs[id].revID, 0) // GetActive caches under the revision-tree id
	}
	vAssert(len(b.rc.cache) == 0 && b.rc.cacheNumItems.Value() == 0, "emptied cache: item gauge is zero")
	vAssert(b.rc.memoryController.bytesInUseForShard.Load() == 0, "emptied cache: byte gauge is zero")
}
