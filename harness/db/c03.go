//go:build verif

package db

import (
	"context"

	"github.com/couchbase/sync_gateway/base"
	"github.com/couchbase/sync_gateway/channels"
)

// C03 (document side) — a document's grant map after an update denotes exactly the new grants, and every
// principal whose grants changed (gained or lost) is reported for invalidation.

var vhPrincipals = [2]string{"alice", "role:r1"}
var vhGrantChans = [2]string{"A", "B"}

func VHarness_C03_UpdateAccess() {
	doc := NewDocument("doc")
	doc.Sequence = vNondetU64()
	vAssume(doc.Sequence >= 1)
	// old grants
	var old [2][2]bool
	var oldSeq [2][2]uint64
	if !vNondetBool() {
		doc.Access = UserAccessMap{}
	}
	for i, p := range vhPrincipals {
		for j, c := range vhGrantChans {
			if vNondetBool() {
				old[i][j] = true
				oldSeq[i][j] = vNondetU64()
				if doc.Access == nil {
					doc.Access = UserAccessMap{}
				}
				if doc.Access[p] == nil {
					doc.Access[p] = channels.TimedSet{}
				}
				doc.Access[p][c] = channels.NewVbSimpleSequence(oldSeq[i][j])
			}
		}
	}
	// new grants from the sync function
	var nw [2][2]bool
	newAccess := channels.AccessMap{}
	for i, p := range vhPrincipals {
		for j, c := range vhGrantChans {
			if vNondetBool() {
				nw[i][j] = true
				if newAccess[p] == nil {
					newAccess[p] = base.Set{}
				}
				newAccess[p][c] = struct{}{}
			}
		}
	}
	vMapOrder(3)
	changed := doc.Access.updateAccess(context.Background(), doc, newAccess)
	vMapOrder(0)
	for i, p := range vhPrincipals {
		differs := false
		for j, c := range vhGrantChans {
			e, ok := doc.Access[p][c]
			vAssert(ok == nw[i][j], "after the update the document grants exactly what the sync function returned")
			if ok {
				if old[i][j] {
					vAssert(e.Sequence == oldSeq[i][j], "a grant that persists keeps its original sequence")
				} else {
					vAssert(e.Sequence == doc.Sequence, "a new grant carries the document's sequence")
				}
			}
			if old[i][j] != nw[i][j] {
				differs = true
			}
		}
		listed := false
		for _, n := range changed {
			if n == p {
				listed = true
			}
		}
		vAssert(listed == differs, "exactly the principals whose grants changed are reported for invalidation")
		if set, ok := doc.Access[p]; ok {
			vAssert(len(set) > 0, "no empty grant entries are left behind")
		}
	}
}

// ---- plumbing of sync-function outputs on the write path (callee intercepts)

func vhStubAvail1xRev(db *DatabaseCollectionWithUser, ctx context.Context, doc *Document, revid string) ([]byte, error) {
	return []byte("{}"), nil
}

func vhStubBodyUnmarshalC03(b *Body, data []byte) error {
	*b = Body{}
	return nil
}

var vhC03Out struct {
	chans        base.Set
	access, role channels.AccessMap
}

func vhStubChannelsAndAccessC03(col *DatabaseCollectionWithUser, ctx context.Context, doc *Document, body Body, metaMap map[string]any, revID string) (base.Set, channels.AccessMap, channels.AccessMap, *uint32, string, error) {
	return vhC03Out.chans, vhC03Out.access, vhC03Out.role, nil, "", nil
}

// VHarness_C03_ActiveRevRecalc: when an older leaf becomes current again, the channel grants and the role grants
// the sync function produced for it reach the caller as such (not dropped, not swapped).
func VHarness_C03_ActiveRevRecalc() {
	vhC03Out.chans = base.Set{"A": struct{}{}}
	vhC03Out.access = channels.AccessMap{}
	vhC03Out.role = channels.AccessMap{}
	grantsChan, grantsRole := vNondetBool(), vNondetBool()
	if grantsChan {
		vhC03Out.access["alice"] = base.Set{"news": struct{}{}}
	}
	if grantsRole {
		vhC03Out.role["alice"] = base.Set{"role:editors": struct{}{}}
	}
	col := &DatabaseCollectionWithUser{DatabaseCollection: &DatabaseCollection{dbCtx: &DatabaseContext{}, ScopeName: base.DefaultScope, Name: base.DefaultCollection}}
	doc := NewDocument("doc")
	doc.SetRevTreeID("2-a")
	chans, access, roles, _, _, err := col.recalculateSyncFnForActiveRev(context.Background(), doc, map[string]any{}, "3-b")
	vAssert(err == nil, "recalculation succeeds")
	vAssert(chans.Contains("A"), "the revived revision's channels reach the caller")
	_, a := access["alice"]["news"]
	_, r := roles["alice"]["role:editors"]
	vAssert(a == grantsChan, "channel grants of the revived revision reach the caller as channel grants")
	vAssert(r == grantsRole, "role grants of the revived revision reach the caller as role grants")
	vAssert(len(access["alice"]) <= 1 && len(roles["alice"]) <= 1, "nothing else is granted")
}
