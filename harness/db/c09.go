//go:build verif

package db

import (
	"context"

	"github.com/couchbase/sync_gateway/base"
)

// C09 — the gateway's own writes are never mistaken for external writes (fingerprint predicates).
//
// All fingerprints are symbolic: document CAS, the CAS recorded in _sync, body and user-xattr contents
// (their CRC32C is an uninterpreted function), the stored CRCs, the cv recorded in _sync and in _vv.

type vhFingerprint struct {
	cas, syncCas   uint64
	body, stored   []byte // current body, body at the gateway's last write
	xattr, sxattr  []byte // current user xattr, user xattr at the gateway's last write
	hasSyncCV      bool
	syncCV, vvCV   uint64
	hasVV, sameSrc bool
}

func vhNondetFingerprint() vhFingerprint {
	f := vhFingerprint{cas: vNondetU64(), syncCas: vNondetU64()}
	f.body = vNondetBytes(vParam("bodylen", 1))
	f.stored = vNondetBytes(vParam("bodylen", 1))
	f.xattr = vNondetBytes(vNondetRange(0, 1))
	f.sxattr = vNondetBytes(vNondetRange(0, 1))
	f.hasSyncCV = vNondetBool()
	f.syncCV, f.vvCV = vNondetU64(), vNondetU64()
	f.hasVV, f.sameSrc = vNondetBool(), vNondetBool()
	return f
}

func (f vhFingerprint) syncData() SyncData {
	s := SyncData{Cas: base.CasToString(f.syncCas), Crc32c: base.Crc32cHashString(f.stored), Crc32cUserXattr: userXattrCrc32cHash(f.sxattr)}
	if f.hasSyncCV {
		s.RevAndVersion.CurrentSource = "S"
		s.RevAndVersion.CurrentVersion = base.CasToString(f.syncCV)
	}
	return s
}

func (f vhFingerprint) hlv() *HybridLogicalVector {
	if !f.hasVV {
		return nil
	}
	src := "S"
	if !f.sameSrc {
		src = "T"
	}
	return &HybridLogicalVector{SourceID: src, Version: f.vvCV}
}

// own: the specification — a mutation is the gateway's own write iff its CAS is the one the gateway recorded, or
// body checksum, user-xattr checksum and (when both sides carry one) current version all equal what it stored.
func (f vhFingerprint) own() (own bool, bodyCrcSame bool, restSame bool) {
	bodyCrcSame = base.Crc32cHash(f.body) == base.Crc32cHash(f.stored)
	xattrSame := false
	if len(f.sxattr) == 0 {
		xattrSame = len(f.xattr) == 0
	} else {
		xattrSame = len(f.xattr) > 0 && base.Crc32cHash(f.xattr) == base.Crc32cHash(f.sxattr)
	}
	cvSame := true
	if f.hasSyncCV && f.hasVV {
		cvSame = f.sameSrc && f.vvCV == f.syncCV
	}
	restSame = xattrSame && cvSame
	return f.cas == f.syncCas || (bodyCrcSame && restSame), bodyCrcSame, restSame
}

// VHarness_C09_OwnWrite: the three own-write predicates agree with the specification.
func VHarness_C09_OwnWrite() {
	ctx := context.Background()
	f := vhNondetFingerprint()
	s := f.syncData()
	own, bodySame, restSame := f.own()

	got, _, bodyChanged := s.IsSGWrite(ctx, f.cas, f.body, f.xattr, f.hlv())
	vAssert(got == own, "SyncData.IsSGWrite agrees with the own-write specification")
	if f.cas != f.syncCas {
		vAssert(bodyChanged == !bodySame, "bodyChanged reports exactly a body checksum mismatch")
	}

	doc := &Document{ID: "doc", SyncData: s, Cas: f.cas, rawUserXattr: f.xattr, HLV: f.hlv()}
	got2, _, _ := doc.IsSGWrite(ctx, f.body)
	vAssert(got2 == own, "Document.IsSGWrite (raw body available) agrees with the own-write specification")

	// xattr-only feed variant (no body available): definitive answers are right, and it is undecided exactly when
	// the body checksum is the only remaining differentiator
	gotX, ambiguous := s.IsSGWriteXattrOnly(ctx, f.cas, false, f.xattr, f.hlv())
	if !ambiguous {
		if gotX {
			vAssert(f.cas == f.syncCas, "xattr-only: a definitive own-write answer needs a CAS match for a live document")
		} else {
			vAssert(f.cas != f.syncCas && !restSame, "xattr-only: a definitive external-write answer is never given for an own write")
		}
	} else {
		vAssert(!gotX && f.cas != f.syncCas && restSame, "xattr-only: undecided exactly when only the body checksum can tell")
	}
	if own {
		vCover("own-write")
	} else {
		vCover("external-write")
	}
}

// VHarness_C09_AfterOwnWrite: immediately after a gateway write (CAS macro-expanded into _sync.cas) every
// predicate recognises the document as its own, whatever the other fingerprints are: no import loop.
func VHarness_C09_AfterOwnWrite() {
	ctx := context.Background()
	f := vhNondetFingerprint()
	f.syncCas = f.cas // server macro expansion: _sync.cas := document CAS of this very write
	s := f.syncData()
	a, _, _ := s.IsSGWrite(ctx, f.cas, f.body, f.xattr, f.hlv())
	doc := &Document{ID: "doc", SyncData: s, Cas: f.cas, rawUserXattr: f.xattr, HLV: f.hlv()}
	b, _, _ := doc.IsSGWrite(ctx, f.body)
	c, amb := s.IsSGWriteXattrOnly(ctx, f.cas, vNondetBool(), f.xattr, f.hlv())
	vAssert(a && b && c && !amb, "a document carrying the CAS of the gateway's own write is never treated as external")
}
