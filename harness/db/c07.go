//go:build verif

package db

import (
	"context"
	"errors"

	"github.com/couchbase/sync_gateway/base"
)

// C07 — sequence numbers are unique, increasing and fully accounted.
//
// The shared _sync:seq counter is modelled by its atomic-counter contract: every Incr first lets "other
// nodes" advance the counter by an arbitrary amount (their reservations are theirs), then adds the
// requested amount and returns the new value. Release documents (AddRaw) may fail.

type vhInterval struct{ lo, hi uint64 } // inclusive [lo,hi]; empty when lo > hi

var vhErrStore = errors.New("verif: injected storage error")

type vhSeqStore struct {
	base.DataStore
	counter      uint64
	reserved     []vhInterval // intervals reserved by this node's Incr calls in this step
	released     []vhInterval // intervals whose release document was durably written
	releaseFails int
	incrFails    int
	faults       bool
	getCalls     int
	// a second goroutine of this node: at any storage call made while the allocator's mutex is not held it may run one
	// nextSequence() to completion (other == 1: armed, 2: done)
	alloc   *sequenceAllocator
	other   int
	handedB []uint64
}

// otherCaller: the second goroutine's chance to run. While the mutex is held it would block, so it cannot run here.
func (s *vhSeqStore) otherCaller(ctx context.Context) {
	if s.other != 1 || vLockHeld(&s.alloc.mutex) {
		return
	}
	if vNondetBool() {
		s.other = 2
		vCover("other-caller-ran-at-unlocked-storage-call")
		seq, err := s.alloc.nextSequence(ctx)
		if err == nil {
			s.handedB = append(s.handedB, seq)
		}
	}
}

func (s *vhSeqStore) Incr(ctx context.Context, k string, amt, def uint64, exp uint32) (uint64, error) {
	s.otherCaller(ctx)
	if s.faults && vNondetBool() {
		s.incrFails++
		return 0, vhErrStore
	}
	// other nodes' reservations between our operations
	delta := vNondetU64()
	vAssume(delta <= 1<<40)
	s.counter += delta
	if amt == 0 {
		s.getCalls++
		return s.counter, nil
	}
	lo := s.counter + 1
	s.counter += amt
	s.reserved = append(s.reserved, vhInterval{lo, s.counter})
	return s.counter, nil
}

func (s *vhSeqStore) AddRaw(ctx context.Context, k string, exp uint32, v []byte) (bool, error) {
	s.otherCaller(ctx)
	if s.faults && vNondetBool() {
		s.releaseFails++
		return false, vhErrStore
	}
	// the body carries the released range (8 bytes: single, 16 bytes: from,to), little endian
	var from, to uint64
	if len(v) == 8 {
		from = vhLE64(v)
		to = from
	} else if len(v) == 16 {
		from, to = vhLE64(v[:8]), vhLE64(v[8:])
	} else {
		vFail("release document has unexpected body length")
	}
	s.released = append(s.released, vhInterval{from, to})
	return true, nil
}

func vhLE64(b []byte) uint64 {
	var r uint64
	for i := 7; i >= 0; i-- {
		r = r<<8 | uint64(b[i])
	}
	return r
}

func vhIn(x uint64, ivs []vhInterval) int {
	n := 0
	for _, iv := range ivs {
		if iv.lo <= x && x <= iv.hi {
			n++
		}
	}
	return n
}

func vhB(b bool) int {
	if b {
		return 1
	}
	return 0
}

func vhDBStats() *base.DatabaseStats {
	return &base.DatabaseStats{
		LastSequenceAssignedValue: &base.SgwUint64Stat{},
		SequenceAssignedCount:     &base.SgwUint64Stat{},
		SequenceGetCount:          &base.SgwIntStat{},
		SequenceIncrCount:         &base.SgwIntStat{},
		SequenceReleasedCount:     &base.SgwUint64Stat{},
		LastSequenceReservedValue: &base.SgwUint64Stat{},
		SequenceReservedCount:     &base.SgwUint64Stat{},
		CorruptSequenceCount:      &base.SgwIntStat{},
	}
}

type vhAllocState struct {
	last, max uint64
}

// vhNewAllocator builds an allocator in an arbitrary state satisfying the representation invariant
// last <= max <= counter, batch size in 1..10.
func vhNewAllocator(faults bool) (*sequenceAllocator, *vhSeqStore) {
	st := &vhSeqStore{faults: faults}
	st.counter = vNondetU64()
	vAssume(st.counter < 1<<62)
	s := &sequenceAllocator{
		datastore:     st,
		dbStats:       vhDBStats(),
		metaKeys:      base.DefaultMetadataKeys,
		reserveNotify: make(chan struct{}, 16),
		terminator:    make(chan struct{}),
	}
	s.last = vNondetU64()
	s.max = vNondetU64()
	s.sequenceBatchSize = vNondetU64()
	vAssume(s.last <= s.max && s.max <= st.counter)
	vAssume(s.sequenceBatchSize >= 1 && s.sequenceBatchSize <= maxBatchSize)
	return s, st
}

// vhPartitionLaw: for an arbitrary witness x, x was available to this node before the step (in its
// window or reserved during the step) iff afterwards it is in exactly one of: the window, the set
// of handed-out numbers, the durably released intervals.
func vhPartitionLaw(s *sequenceAllocator, st *vhSeqStore, pre vhAllocState, handed []uint64, strict bool, tag string) {
	x := vNondetU64()
	inW := pre.last < x && x <= pre.max
	inR := vhIn(x, st.reserved)
	vAssert(inR <= 1, tag+": reservations of this node overlap")
	vAssert(!(inW && inR > 0), tag+": reservation overlaps the existing window")
	avail := inW || inR > 0
	inW2 := s.last < x && x <= s.max
	inH := 0
	for _, h := range handed {
		if h == x {
			inH++
		}
	}
	inU := vhIn(x, st.released)
	total := vhB(inW2) + inH + inU
	vAssert(total <= 1, tag+": a sequence is handed out, released or kept more than once")
	if total == 1 {
		vAssert(avail, tag+": a sequence not owned by this node is handed out, released or kept")
	}
	if strict && st.releaseFails == 0 {
		if avail {
			vAssert(total == 1, tag+": an owned sequence is neither kept, handed out nor released")
		}
	}
	vAssert(s.last <= s.max, tag+": last <= max")
	vAssert(s.max <= st.counter, tag+": max <= counter")
	vAssert(s.sequenceBatchSize >= 1 && s.sequenceBatchSize <= maxBatchSize, tag+": batch size in 1..10")
}

// VHarness_C07_NextSequence: one nextSequence() from an arbitrary valid state.
func VHarness_C07_NextSequence() {
	s, st := vhNewAllocator(vParam("faults", 1) == 1)
	pre := vhAllocState{s.last, s.max}
	seq, err := s.nextSequence(context.Background())
	var handed []uint64
	if err == nil {
		handed = append(handed, seq)
		vAssert(seq > pre.last, "nextSequence: result above the previous last")
		vCover("next-ok")
	} else {
		vAssert(st.incrFails > 0, "nextSequence: error without a storage failure")
		vAssert(s.last == pre.last && s.max == pre.max, "nextSequence: failed call leaves the window unchanged")
	}
	vhPartitionLaw(s, st, pre, handed, true, "nextSequence")
}

// VHarness_C07_NextTwo: two consecutive allocations are distinct and increasing.
func VHarness_C07_NextTwo() {
	s, st := vhNewAllocator(false)
	pre := vhAllocState{s.last, s.max}
	a, err1 := s.nextSequence(context.Background())
	b, err2 := s.nextSequence(context.Background())
	vAssert(err1 == nil && err2 == nil, "no error without faults")
	vAssert(a < b, "consecutive allocations strictly increase")
	vhPartitionLaw(s, st, pre, []uint64{a, b}, true, "nextSequence x2")
}

// VHarness_C07_GreaterThan: nextSequenceGreaterThan(e) from an arbitrary valid state.
func VHarness_C07_GreaterThan() {
	s, st := vhNewAllocator(vParam("faults", 1) == 1)
	pre := vhAllocState{s.last, s.max}
	e := vNondetU64()
	vAssume(e < 1<<62)
	seq, releasedCount, err := s.nextSequenceGreaterThan(context.Background(), e)
	var handed []uint64
	if err == nil {
		handed = append(handed, seq)
		vAssert(seq > e, "nextSequenceGreaterThan: result greater than the existing sequence")
		vAssert(seq > pre.last, "nextSequenceGreaterThan: result above the previous last")
		var n uint64
		for _, iv := range st.released {
			n += iv.hi - iv.lo + 1
		}
		vAssert(releasedCount == n, "nextSequenceGreaterThan: reported released count equals what was durably released")
		vCover("gt-ok")
	}
	// when the release of the current batch fails, the batch is dropped (documented: skipped-sequence handling);
	// the strict direction is only claimed when no release write failed.
	vhPartitionLaw(s, st, pre, handed, true, "nextSequenceGreaterThan")
}

// VHarness_C07_ReleaseUnused: releaseUnusedSequences from an arbitrary valid state.
func VHarness_C07_ReleaseUnused() {
	s, st := vhNewAllocator(vParam("faults", 1) == 1)
	pre := vhAllocState{s.last, s.max}
	s.releaseUnusedSequences(context.Background())
	vAssert(s.last == s.max && s.max == pre.max, "releaseUnusedSequences: window emptied")
	vhPartitionLaw(s, st, pre, nil, true, "releaseUnusedSequences")
}

// VHarness_C07_ReleaseSingle: releaseSequence / releaseSequenceRange write exactly the named numbers.
func VHarness_C07_ReleaseSingle() {
	s, st := vhNewAllocator(false)
	x := vNondetU64()
	err := s.releaseSequence(context.Background(), x)
	vAssert(err == nil, "releaseSequence ok")
	vAssert(len(st.released) == 1 && st.released[0].lo == x && st.released[0].hi == x, "releaseSequence records exactly x")
	from, to := vNondetU64(), vNondetU64()
	n, err := s.releaseSequenceRange(context.Background(), from, to)
	vAssert(err == nil, "releaseSequenceRange ok")
	if to == 0 || to < from {
		vAssert(n == 0 && len(st.released) == 1, "empty range releases nothing")
	} else {
		vAssert(len(st.released) == 2 && st.released[1].lo == from && st.released[1].hi == to, "releaseSequenceRange records exactly [from,to]")
		vAssert(n == to-from+1, "releaseSequenceRange count")
	}
}

// VHarness_C07_ConcurrentCaller: one allocator operation (release of the idle batch, allocation, allocation above a
// floor) while a second goroutine of the same node allocates a sequence at any storage call the operation makes
// without holding the allocator's mutex. Every number is still kept, handed out or released exactly once.
func VHarness_C07_ConcurrentCaller() {
	ctx := context.Background()
	s, st := vhNewAllocator(vParam("faults", 0) == 1)
	st.alloc, st.other = s, 1
	pre := vhAllocState{s.last, s.max}
	var handed []uint64
	switch vNondetRange(vParam("modelo", 0), vParam("modehi", 2)) {
	case 0:
		vCover("concurrent-release-unused")
		s.releaseUnusedSequences(ctx)
	case 1:
		vCover("concurrent-next")
		if seq, err := s.nextSequence(ctx); err == nil {
			handed = append(handed, seq)
		}
	case 2:
		vCover("concurrent-greater-than")
		e := vNondetU64()
		vAssume(e < 1<<62)
		if seq, _, err := s.nextSequenceGreaterThan(ctx, e); err == nil {
			handed = append(handed, seq)
			vAssert(seq > e, "nextSequenceGreaterThan: result greater than the existing sequence")
		}
	}
	handed = append(handed, st.handedB...)
	if len(handed) == 2 {
		vAssert(handed[0] != handed[1], "two callers never receive the same sequence")
	}
	vhPartitionLaw(s, st, pre, handed, true, "concurrent callers")
}
