//go:build verif

package db

import (
	"context"
	"errors"

	sgbucket "github.com/couchbase/sg-bucket"
	"github.com/couchbase/sync_gateway/base"
)

// C07 — ResyncDocument with regenerate_sequences accounts for every sequence it reserves: it ends up on the stored
// document (as its sequence or in its unused-sequence list) or is released, whatever the outcome of the write
// (success, compare-and-swap retry because the document changed underneath, storage error).

var vhErrResyncStore = errors.New("verif: injected storage error")

// vhResyncStore stands in for the collection's data store: WriteUpdateWithXattrs runs the callback on the current
// document; the write may fail, or lose a compare-and-swap race once (the callback then runs again).
type vhResyncStore struct {
	base.DataStore
	doc       *Document // current stored document (as unmarshalDocumentWithXattrs would return it)
	pending   *Document // the document the last callback wants to store
	stored    *Document
	retries   int
	callbacks int
}

var vhResyncS *vhResyncStore

func (s *vhResyncStore) WriteUpdateWithXattrs(ctx context.Context, k string, xattrs []string, exp uint32, previous *sgbucket.BucketDocument, opts *sgbucket.MutateInOptions, callback sgbucket.WriteUpdateWithXattrsFunc) (uint64, error) {
	for {
		s.callbacks++
		_, err := callback([]byte("{}"), map[string][]byte{}, 7)
		if err != nil {
			if err == base.ErrUpdateCancel {
				return 0, nil
			}
			return 0, err
		}
		switch vNondetRange(0, 2) {
		case 1:
			return 0, vhErrResyncStore // the write fails for good
		case 2:
			if s.retries < vParam("retries", 1) {
				s.retries++ // compare-and-swap mismatch: the document changed underneath, run the callback again
				continue
			}
		}
		s.stored = s.pending
		return 8, nil
	}
}

func vhResyncUnmarshal(c *DatabaseCollection, ctx context.Context, docid string, data []byte, xattrs map[string][]byte, cas uint64, level DocumentUnmarshalLevel) (*Document, error) {
	// a fresh copy of the stored document for every attempt (as a re-read would give)
	d := *vhResyncS.doc
	d.History = vhResyncS.doc.History.copy()
	vhResyncS.pending = &d
	return &d, nil
}

func vhResyncMarshal(doc *Document) (data, syncXattr, vvXattr, mouXattr, globalXattr []byte, err error) {
	vhResyncS.pending = doc
	return nil, []byte("{}"), nil, []byte("{}"), nil, nil
}

// VHarness_C07_ResyncRegenerate: one ResyncDocument(regenerateSequences=true).
func VHarness_C07_ResyncRegenerate() {
	ctx := context.Background()
	alloc, st := vhNewAllocator(false)
	vAssume(alloc.last >= 10)
	dbc := &DatabaseContext{sequences: alloc}
	doc := NewDocument("doc")
	doc.Sequence = 5
	doc.SetRevTreeID("1-a")
	doc.History = RevTree{"1-a": &RevInfo{ID: "1-a"}}
	vhSyncOutputs = map[string]vhSyncOut{"1-a": {chans: base.SetOf("A")}}
	store := &vhResyncStore{doc: doc}
	vhResyncS = store
	col := &DatabaseCollectionWithUser{DatabaseCollection: &DatabaseCollection{dbCtx: dbc, dataStore: store, ScopeName: base.DefaultScope, Name: base.DefaultCollection}}
	assignedBefore := alloc.dbStats.SequenceAssignedCount.Value()
	err := col.ResyncDocument(ctx, "doc", nil, true)
	assigned := alloc.dbStats.SequenceAssignedCount.Value() - assignedBefore
	var released uint64
	for _, iv := range st.released {
		vAssert(iv.hi >= iv.lo, "released interval well-formed")
		released += iv.hi - iv.lo + 1
	}
	var carried uint64
	if store.stored != nil {
		vCover("resync-stored")
		vAssert(err == nil, "a stored resync reports success")
		vAssert(store.stored.Sequence > 5, "the regenerated sequence is newer than the old one")
		carried = 1 + uint64(len(store.stored.UnusedSequences))
		vAssert(vhIn(store.stored.Sequence, st.released) == 0, "the sequence carried by the stored document is not also released")
	} else {
		vCover("resync-not-stored")
	}
	if store.retries > 0 {
		vCover("resync-cas-retry")
	}
	vAssert(assigned == released+carried, "every sequence reserved by a resync is carried by the stored document or released as unused")
}
