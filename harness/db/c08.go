//go:build verif

package db

import (
	"context"
	"time"

	"github.com/couchbase/sync_gateway/channels"
)

// C08 — sequence buffering delivers each change once, in order, and never hides gaps.
//
// Bounded symbolic history over the real changeCache (real container/heap and skipped-sequence skip list):
// the cache starts expecting an arbitrary sequence N; k feed events arrive, each a document change, an
// unused single sequence or an unused range at offsets inside a window of W sequences above N (and late
// arrivals below the moving nextSequence). The channel cache is a recording stub.

const vhMaxWin = 8

type vhRecCache struct {
	ChannelCache
	base      uint64
	delivered [vhMaxWin]int  // times each window offset was handed to the channel cache as a change
	unused    [vhMaxWin]int  // times each window offset was reported as unused
	late      [vhMaxWin]bool // delivered with the Skipped flag
	order     []int          // offsets in delivery order (changes only)
	outside   int            // deliveries outside the window (must stay 0)
	c         *changeCache
}

func (r *vhRecCache) off(seq uint64) int {
	if seq < r.base || seq >= r.base+vhMaxWin {
		r.outside++
		return -1
	}
	return int(seq - r.base)
}

func (r *vhRecCache) AddToCache(ctx context.Context, change *LogEntry) []channels.ID {
	if o := r.off(change.Sequence); o >= 0 {
		r.delivered[o]++
		r.late[o] = change.Skipped
		r.order = append(r.order, o)
		if change.Skipped {
			// a late arrival must still be listed as skipped when it reaches the channel cache
			vAssert(r.c.WasSkipped(change.Sequence), "late arrival is cached before it leaves the skipped set")
		}
	}
	return nil
}

func (r *vhRecCache) AddPrincipal(change *LogEntry) {
	if o := r.off(change.Sequence); o >= 0 {
		r.delivered[o]++
	}
}

func (r *vhRecCache) AddUnusedSequence(change *LogEntry) {
	end := change.Sequence
	if change.EndSequence != 0 {
		end = change.EndSequence
	}
	for s := change.Sequence; s <= end; s++ {
		if o := r.off(s); o >= 0 {
			r.unused[o]++
		}
	}
}

func vhNewChangeCache(maxPending int) (*changeCache, *vhRecCache, uint64) {
	n := vNondetU64()
	vAssume(n >= 2 && n < 1<<62)
	rec := &vhRecCache{base: n}
	c := &changeCache{
		db:              &DatabaseContext{},
		logCtx:          context.Background(),
		nextSequence:    n,
		initialSequence: n - 1,
		receivedSeqs:    map[uint64]struct{}{},
		skippedSeqs:     NewSkippedSequenceSkiplist(),
		channelCache:    rec,
		options:         CacheOptions{CachePendingSeqMaxNum: maxPending, CachePendingSeqMaxWait: time.Hour},
	}
	rec.c = c
	return c, rec, n
}

// vhCheckBuffer: the buffering invariants over the window.
func vhCheckBuffer(c *changeCache, rec *vhRecCache, n uint64, w int, sent *[vhMaxWin]int, tag string) {
	vAssert(rec.outside == 0, tag+": nothing outside the fed sequences reaches the channel cache")
	vAssert(c.nextSequence >= n && c.nextSequence <= n+uint64(w), tag+": nextSequence stays inside the fed window")
	pending := map[uint64]bool{}
	for _, p := range c.pendingLogs {
		pending[p.Sequence] = true
		vAssert(p.Sequence >= c.nextSequence, tag+": pending entries are at or above nextSequence")
	}
	vAssert(len(c.receivedSeqs) == len(c.pendingLogs), tag+": receivedSeqs tracks exactly the pending entries")
	for s := range c.receivedSeqs {
		vAssert(pending[s], tag+": receivedSeqs tracks exactly the pending entries")
	}
	for o := 0; o < w; o++ {
		seq := n + uint64(o)
		vAssert(rec.delivered[o] <= 1, tag+": a sequence is handed to the channel cache at most once")
		vAssert(!(rec.delivered[o] > 0 && rec.unused[o] > 0), tag+": a sequence is not both a change and unused")
		if rec.delivered[o] > 0 {
			vAssert(sent[o] == 1, tag+": only changes that arrived on the feed are cached")
		}
		if rec.unused[o] > 0 {
			vAssert(sent[o] == 2, tag+": only sequences released on the feed are reported unused")
		}
		if seq < c.nextSequence {
			switch sent[o] {
			case 0:
				vAssert(c.WasSkipped(seq), tag+": a sequence that has not arrived and is below nextSequence is listed as skipped (no hidden gap)")
			case 1:
				vAssert(rec.delivered[o] == 1, tag+": a change that arrived and is below nextSequence has been cached")
				vAssert(!c.WasSkipped(seq), tag+": a cached change is no longer listed as skipped")
			case 2:
				vAssert(!c.WasSkipped(seq), tag+": a released sequence is not listed as skipped")
				vAssert(rec.delivered[o] == 0, tag+": a released sequence is never cached as a change")
			}
		} else {
			vAssert(!c.WasSkipped(seq), tag+": nothing at or above nextSequence is listed as skipped")
			vAssert(rec.delivered[o] == 0 && rec.unused[o] == 0, tag+": nothing at or above nextSequence has been cached")
			if sent[o] != 0 {
				covered := false
				for _, p := range c.pendingLogs {
					end := p.Sequence
					if p.EndSequence != 0 {
						end = p.EndSequence
					}
					if p.Sequence <= seq && seq <= end {
						covered = true
					}
				}
				vAssert(covered, tag+": an arrived sequence at or above nextSequence is held in the pending queue")
			}
		}
	}
	// in-order delivery except late arrivals
	last := -1
	for _, o := range rec.order {
		if !rec.late[o] {
			vAssert(o > last, tag+": non-late changes reach the channel cache in ascending sequence order")
			last = o
		}
	}
	// stable sequence never passes a missing sequence
	stable := c._getMaxStableCached(context.Background())
	for o := 0; o < w; o++ {
		seq := n + uint64(o)
		if seq <= stable {
			vAssert(sent[o] != 0, tag+": the stable sequence is below every missing sequence")
		}
	}
}

// VHarness_C08_History: k feed events; invariants after each.
func VHarness_C08_History() {
	w := vParam("window", 4)
	k := vParam("events", 3)
	c, rec, n := vhNewChangeCache(vNondetRange(0, vParam("maxpending", 1)))
	var sent [vhMaxWin]int // 0 not arrived, 1 change, 2 released as unused
	ctx := context.Background()
	for e := 0; e < k; e++ {
		kind := vNondetRange(0, 2)
		o := vNondetRange(0, w-1)
		seq := n + uint64(o)
		switch kind {
		case 0: // document change (a duplicate delivery of an already fed change is allowed: recent_sequences)
			vAssume(sent[o] != 2) // the allocator never both assigns and releases a number
			sent[o] = 1
			c.processEntry(ctx, &LogEntry{Sequence: seq, DocID: "doc", RevID: "1-a"})
		case 1: // unused single sequence
			vAssume(sent[o] != 1)
			sent[o] = 2
			c.releaseUnusedSequence(ctx, seq, 0)
		case 2: // unused range [o, o2]
			o2 := vNondetRange(o, w-1)
			fresh := true
			for i := o; i <= o2; i++ {
				if sent[i] != 0 {
					fresh = false
				}
			}
			// the allocator releases only numbers it never handed out: a released range is disjoint from everything else fed
			vAssume(fresh)
			for i := o; i <= o2; i++ {
				sent[i] = 2
			}
			c.releaseUnusedSequenceRange(ctx, seq, n+uint64(o2), 0)
		}
		vhCheckBuffer(c, rec, n, w, &sent, "after event")
	}
	if len(c.pendingLogs) > 0 {
		vCover("pending-nonempty")
	}
	if c.skippedSeqs.list.GetLength() > 0 {
		vCover("skipped-nonempty")
	}
}
