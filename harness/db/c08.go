//go:build verif

package db

import (
	"context"
	"time"

	"github.com/couchbase/sync_gateway/base"
	"github.com/couchbase/sync_gateway/channels"
)

// C08 — sequence buffering delivers each change once, in order, and never hides gaps.
//
// Bounded symbolic history over the real changeCache (real container/heap and skipped-sequence skip list):
// the cache starts expecting an arbitrary sequence N; k feed events arrive, each a document change, an
// unused single sequence or an unused range at offsets inside a window of W sequences above N (and late
// arrivals below the moving nextSequence). The channel cache is a recording stub.

const vhMaxWin = 8

type vhRecCache struct {
	ChannelCache
	base      uint64
	delivered [vhMaxWin]int  // times each window offset was handed to the channel cache as a change
	unused    [vhMaxWin]int  // times each window offset was reported as unused
	late      [vhMaxWin]bool // delivered with the Skipped flag
	order     []int          // offsets in delivery order (changes only)
	outside   int            // deliveries outside the window (must stay 0)
	c         *changeCache
}

func (r *vhRecCache) off(seq uint64) int {
	if seq < r.base || seq >= r.base+vhMaxWin {
		r.outside++
		return -1
	}
	return int(seq - r.base)
}

func (r *vhRecCache) AddToCache(ctx context.Context, change *LogEntry) []channels.ID {
	if o := r.off(change.Sequence); o >= 0 {
		r.delivered[o]++
		r.late[o] = change.Skipped
		r.order = append(r.order, o)
		if change.Skipped {
			// a late arrival must still be listed as skipped when it reaches the channel cache
			vAssert(r.c.WasSkipped(change.Sequence), "late arrival is cached before it leaves the skipped set")
		}
	}
	return nil
}

func (r *vhRecCache) AddPrincipal(change *LogEntry) {
	if o := r.off(change.Sequence); o >= 0 {
		r.delivered[o]++
	}
}

func (r *vhRecCache) AddUnusedSequence(change *LogEntry) {
	end := change.Sequence
	if change.EndSequence != 0 {
		end = change.EndSequence
	}
	for s := change.Sequence; s <= end; s++ {
		if o := r.off(s); o >= 0 {
			r.unused[o]++
		}
	}
}

func vhNewChangeCache(maxPending int) (*changeCache, *vhRecCache, uint64) {
	n := vNondetU64()
	vAssume(n >= 2 && n < 1<<62)
	rec := &vhRecCache{base: n}
	c := &changeCache{
		db: &DatabaseContext{DbStats: &base.DbStats{DatabaseStats: &base.DatabaseStats{
			DCPCachingCount: &base.SgwIntStat{}, DCPCachingTime: &base.SgwIntStat{}}}},
		logCtx:          context.Background(),
		nextSequence:    n,
		initialSequence: n - 1,
		receivedSeqs:    map[uint64]struct{}{},
		skippedSeqs:     NewSkippedSequenceSkiplist(),
		channelCache:    rec,
		options:         CacheOptions{CachePendingSeqMaxNum: maxPending, CachePendingSeqMaxWait: time.Hour},
	}
	// age trigger: either every pending entry counts as too old (wait 0) or none ever does (wait 100 years)
	if vNondetBool() {
		c.options.CachePendingSeqMaxWait = 0
	} else {
		c.options.CachePendingSeqMaxWait = 100 * 365 * 24 * time.Hour
	}
	rec.c = c
	return c, rec, n
}

// vhCheckBuffer: the buffering invariants over the window.
// vhCheckNoLoss: the invariants that must survive even inconsistent feeds (repeated unused ranges, ranges that
// cover waiting changes): an arrived change is cached exactly once as soon as nextSequence has passed it, is
// otherwise still pending, and a sequence that never arrived is listed as skipped once passed.
func vhCheckNoLoss(c *changeCache, rec *vhRecCache, n uint64, w int, sent *[vhMaxWin]int, tag string) {
	vAssert(rec.outside == 0, tag+": nothing outside the fed sequences reaches the channel cache")
	for o := 0; o < w; o++ {
		seq := n + uint64(o)
		vAssert(rec.delivered[o] <= 1, tag+": a sequence is handed to the channel cache at most once")
		if rec.delivered[o] > 0 {
			vAssert(sent[o] == 1, tag+": only changes that arrived on the feed are cached")
		}
		if sent[o] == 1 {
			if seq < c.nextSequence {
				vAssert(rec.delivered[o] == 1, tag+": an arrived change is not lost when nextSequence passes it")
			} else {
				held := false
				for _, p := range c.pendingLogs {
					if p.Sequence == seq && !p.UnusedSequence {
						held = true
					}
				}
				vAssert(held, tag+": an arrived change above nextSequence is still pending")
			}
		}
		if sent[o] == 0 && seq < c.nextSequence {
			vAssert(c.WasSkipped(seq), tag+": a sequence that never arrived is listed as skipped once passed")
		}
	}
}

func vhCheckBuffer(c *changeCache, rec *vhRecCache, n uint64, w int, sent *[vhMaxWin]int, tag string) {
	overlap := vParam("overlap", 0) == 1
	if overlap {
		vhCheckNoLoss(c, rec, n, w, sent, tag)
		return
	}
	vAssert(rec.outside == 0, tag+": nothing outside the fed sequences reaches the channel cache")
	vAssert(c.nextSequence >= n && c.nextSequence <= n+uint64(w), tag+": nextSequence stays inside the fed window")
	pending := map[uint64]bool{}
	for _, p := range c.pendingLogs {
		pending[p.Sequence] = true
		vAssert(p.Sequence >= c.nextSequence, tag+": pending entries are at or above nextSequence")
	}
	// receivedSeqs mirrors the pending single entries (unused ranges are queued without being registered there)
	singles := 0
	for _, p := range c.pendingLogs {
		if !p.IsUnusedRange() {
			singles++
			_, ok := c.receivedSeqs[p.Sequence]
			vAssert(ok, tag+": every pending single entry is registered in receivedSeqs")
		}
	}
	vAssert(len(c.receivedSeqs) == singles, tag+": receivedSeqs holds nothing but the pending single entries")
	for s := range c.receivedSeqs {
		vAssert(pending[s], tag+": receivedSeqs holds nothing but the pending single entries")
	}
	for o := 0; o < w; o++ {
		seq := n + uint64(o)
		vAssert(rec.delivered[o] <= 1, tag+": a sequence is handed to the channel cache at most once")
		if !overlap {
			vAssert(!(rec.delivered[o] > 0 && rec.unused[o] > 0), tag+": a sequence is not both a change and unused")
		}
		if rec.delivered[o] > 0 {
			vAssert(sent[o] == 1, tag+": only changes that arrived on the feed are cached")
		}
		if rec.unused[o] > 0 && !overlap {
			vAssert(sent[o] == 2, tag+": only sequences released on the feed are reported unused")
		}
		if seq < c.nextSequence {
			switch sent[o] {
			case 0:
				vAssert(c.WasSkipped(seq), tag+": a sequence that has not arrived and is below nextSequence is listed as skipped (no hidden gap)")
			case 1:
				vAssert(rec.delivered[o] == 1, tag+": a change that arrived and is below nextSequence has been cached")
				vAssert(!c.WasSkipped(seq), tag+": a cached change is no longer listed as skipped")
			case 2:
				vAssert(!c.WasSkipped(seq), tag+": a released sequence is not listed as skipped")
				vAssert(rec.delivered[o] == 0, tag+": a released sequence is never cached as a change")
			}
		} else {
			vAssert(!c.WasSkipped(seq), tag+": nothing at or above nextSequence is listed as skipped")
			vAssert(rec.delivered[o] == 0 && rec.unused[o] == 0, tag+": nothing at or above nextSequence has been cached")
			if sent[o] == 1 || (sent[o] == 2 && !overlap) {
				covered := false
				for _, p := range c.pendingLogs {
					end := p.Sequence
					if p.EndSequence != 0 {
						end = p.EndSequence
					}
					if p.Sequence <= seq && seq <= end {
						covered = true
					}
				}
				vAssert(covered, tag+": an arrived sequence at or above nextSequence is held in the pending queue")
			}
		}
	}
	// in-order delivery except late arrivals
	last := -1
	for _, o := range rec.order {
		if !rec.late[o] {
			vAssert(o > last, tag+": non-late changes reach the channel cache in ascending sequence order")
			last = o
		}
	}
	// stable sequence never passes a missing sequence
	stable := c._getMaxStableCached(context.Background())
	for o := 0; o < w; o++ {
		seq := n + uint64(o)
		if seq <= stable {
			vAssert(sent[o] != 0, tag+": the stable sequence is below every missing sequence")
		}
	}
}

// VHarness_C08_History: k feed events; invariants after each.
func VHarness_C08_History() {
	w := vParam("window", 4)
	k := vParam("events", 3)
	maxPending := vParam("fixpending", -1)
	if maxPending < 0 {
		maxPending = vNondetRange(0, vParam("maxpending", 1))
	}
	c, rec, n := vhNewChangeCache(maxPending)
	var sent [vhMaxWin]int // 0 not arrived, 1 change, 2 released as unused
	ctx := context.Background()
	for e := 0; e < k; e++ {
		kind := vNondetRange(0, 2)
		if vParam("overlap", 0) == 1 {
			vAssume(kind != 1)
		}
		o := vNondetRange(0, w-1)
		seq := n + uint64(o)
		switch kind {
		case 0: // document change (a duplicate delivery of an already fed change is allowed: recent_sequences)
			if vParam("overlap", 0) == 1 {
				// defensive mode: a change may arrive for a sequence inside an unused range that is still waiting
				vAssume(sent[o] != 2 || seq >= c.nextSequence)
				// ... but not for the very sequence an unused entry is queued under (processEntry treats that as a
				// duplicate delivery by design)
				for _, p := range c.pendingLogs {
					vAssume(!(p.UnusedSequence && p.Sequence == seq))
				}
			} else {
				vAssume(sent[o] != 2) // the allocator never both assigns and releases a number
			}
			sent[o] = 1
			c.processEntry(ctx, &LogEntry{Sequence: seq, DocID: "doc", RevID: "1-a", TimeReceived: channels.NewFeedTimestampFromNow()})
		case 1: // unused single sequence (each number is released at most once)
			vAssume(sent[o] == 0)
			sent[o] = 2
			c.releaseUnusedSequence(ctx, seq, channels.NewFeedTimestampFromNow())
		case 2: // unused range [o, o2]
			o2 := vNondetRange(o, w-1)
			fresh := true
			for i := o; i <= o2; i++ {
				if sent[i] != 0 {
					fresh = false
				}
			}
			if vParam("overlap", 0) == 0 {
				// the allocator releases only numbers it never handed out: a released range is disjoint from everything else fed
				vAssume(fresh)
			} else {
				// defensive mode: a (possibly repeated) range may cover changes that are still waiting in the pending
				// queue; such a change must still be delivered
				for i := o; i <= o2; i++ {
					if sent[i] == 1 {
						vAssume(n+uint64(i) >= c.nextSequence)
					}
				}
			}
			for i := o; i <= o2; i++ {
				if sent[i] != 1 {
					sent[i] = 2
				}
			}
			c.releaseUnusedSequenceRange(ctx, seq, n+uint64(o2), channels.NewFeedTimestampFromNow())
		}
		if vParam("overlap", 0) == 0 || e == k-1 {
			// (defensive mode checks once, at the end: a lost change stays lost)
			vhCheckBuffer(c, rec, n, w, &sent, "after event")
		}
	}
	if len(c.pendingLogs) > 0 {
		vCover("pending-nonempty")
	}
	if c.skippedSeqs.list.GetLength() > 0 {
		vCover("skipped-nonempty")
	}
}

// VHarness_C08_Overlap: the same history harness in defensive mode (parameter overlap=1): unused ranges may be
// repeated and may cover changes still waiting in the pending queue; no arrived change may be lost.
func VHarness_C08_Overlap() {
	VHarness_C08_History()
}
