//go:build verif

package db

import (
	"context"

	sgbucket "github.com/couchbase/sg-bucket"
	"github.com/couchbase/sync_gateway/base"
	"github.com/couchbase/sync_gateway/channels"
)

// C09 — what the gateway asks the server to stamp on its own writes. A gateway write hands the bucket the new xattrs
// plus a list of macro expansions (fields the server fills in with the CAS / body checksum of that very mutation).
// Whether a later look at the document takes it for a gateway write or for an external write depends on exactly those
// stamps. The harness store applies them the way the server does (opts.MacroExpansion followed by the callback's Spec)
// and the real own-write predicate is then evaluated on what is stored:
//   - a metadata-only rewrite (resync) must not change the answer: an external write that has not been imported yet
//     is still pending afterwards, a document the gateway owned is still the gateway's (no import of its own rewrite).

type vhStampStore struct {
	base.DataStore
	cur     *Document // the stored document as unmarshalDocumentWithXattrs would return it
	body    []byte    // the stored body
	pending *Document // the document the last callback marshalled
	stored  *Document
	written bool
}

var vhStamp *vhStampStore

func (s *vhStampStore) WriteUpdateWithXattrs(ctx context.Context, k string, xattrs []string, exp uint32, previous *sgbucket.BucketDocument, opts *sgbucket.MutateInOptions, callback sgbucket.WriteUpdateWithXattrsFunc) (uint64, error) {
	upd, err := callback(s.body, map[string][]byte{}, s.cur.Cas)
	if err != nil {
		if err == base.ErrUpdateCancel {
			return 0, nil
		}
		return 0, err
	}
	newCas := vNondetU64()
	vAssume(newCas > s.cur.Cas) // CAS values of one document increase
	st := *s.cur
	// only the xattrs the callback returned are replaced
	if _, ok := upd.Xattrs[base.SyncXattrName]; ok {
		st.SyncData = s.pending.SyncData
	}
	if _, ok := upd.Xattrs[base.MouXattrName]; ok {
		st.MetadataOnlyUpdate = s.pending.MetadataOnlyUpdate
	}
	if _, ok := upd.Xattrs[base.VvXattrName]; ok {
		st.HLV = s.pending.HLV
	}
	for _, x := range upd.XattrsToDelete {
		if x == base.MouXattrName {
			st.MetadataOnlyUpdate = nil
		}
	}
	if upd.Doc != nil {
		s.body = upd.Doc
	}
	st.Cas = newCas
	var specs []sgbucket.MacroExpansionSpec
	if opts != nil {
		specs = append(specs, opts.MacroExpansion...)
	}
	specs = append(specs, upd.Spec...)
	for _, sp := range specs {
		switch {
		case sp.Path == base.SyncXattrName+".cas" && sp.Type == sgbucket.MacroCas:
			st.SyncData.Cas = base.CasToString(newCas)
		case sp.Path == base.SyncXattrName+".value_crc32c" && sp.Type == sgbucket.MacroCrc32c:
			st.SyncData.Crc32c = base.Crc32cHashString(s.body)
		case sp.Path == base.MouXattrName+".cas" && sp.Type == sgbucket.MacroCas:
			if st.MetadataOnlyUpdate != nil {
				m := *st.MetadataOnlyUpdate
				m.HexCAS = base.CasToString(newCas)
				st.MetadataOnlyUpdate = &m
			}
		case sp.Path == base.VvXattrName+".cvCas" && sp.Type == sgbucket.MacroCas:
			if st.HLV != nil {
				h := *st.HLV
				h.CurrentVersionCAS = newCas
				st.HLV = &h
			}
		default:
			vFail("harness: macro expansion the stamping store does not know")
		}
	}
	s.stored = &st
	s.written = true
	return newCas, nil
}

func vhStampUnmarshal(c *DatabaseCollection, ctx context.Context, docid string, data []byte, xattrs map[string][]byte, cas uint64, level DocumentUnmarshalLevel) (*Document, error) {
	d := *vhStamp.cur
	d.History = vhStamp.cur.History.copy()
	vhStamp.pending = &d
	return &d, nil
}

func vhStampMarshal(doc *Document) (data, syncXattr, vvXattr, mouXattr, globalXattr []byte, err error) {
	vhStamp.pending = doc
	var mou []byte
	if doc.MetadataOnlyUpdate != nil {
		mou = []byte("{}")
	}
	var vv []byte
	if doc.HLV != nil {
		vv = []byte("{}")
	}
	return []byte("{}"), []byte("{}"), vv, mou, nil, nil
}

// vhStampDoc: a stored document with an arbitrary fingerprint that a real history can produce: if the document still
// carries the CAS of a gateway write, that write also stamped the checksums and versions it describes.
func vhStampDoc(f vhFingerprint) *Document {
	own, bodySame, restSame := f.own()
	_ = own
	vAssume(f.cas != f.syncCas || (bodySame && restSame))
	vAssume(f.syncCas <= f.cas) // the CAS the gateway recorded is that of this or an earlier mutation (CAS values increase)
	doc := NewDocument("doc")
	doc.SyncData = f.syncData()
	doc.Cas = f.cas
	doc.rawUserXattr = f.xattr
	doc.HLV = f.hlv()
	doc.Sequence = 5
	doc.SetRevTreeID("1-a")
	doc.History = RevTree{"1-a": &RevInfo{ID: "1-a"}}
	doc.Channels = channels.ChannelMap{}
	return doc
}

// VHarness_C09_ResyncStamp: ResyncDocument (its channels change under the new sync function, so it is rewritten)
// on a document that is either in step with the gateway or carries an external write that has not been imported yet.
func VHarness_C09_ResyncStamp() {
	ctx := context.Background()
	f := vhNondetFingerprint()
	vAssume(f.cas < 1<<62 && f.syncCas < 1<<62)
	doc := vhStampDoc(f)
	ownBefore, bodySame, _ := f.own()
	fx := f
	fx.xattr = fx.sxattr // the same fingerprint with the user xattr as the gateway last saw it
	ownButForXattr, _, _ := fx.own()
	store := &vhStampStore{cur: doc, body: f.body}
	vhStamp = store
	vhSyncOutputs = map[string]vhSyncOut{"1-a": {chans: base.SetOf("A")}}
	alloc, _ := vhNewAllocator(false)
	vAssume(alloc.last >= 10)
	dbc := &DatabaseContext{sequences: alloc}
	col := &DatabaseCollectionWithUser{DatabaseCollection: &DatabaseCollection{dbCtx: dbc, dataStore: store, ScopeName: base.DefaultScope, Name: base.DefaultCollection}}
	err := col.ResyncDocument(ctx, "doc", nil, false)
	vAssert(err == nil && store.written, "the document's channels changed: resync rewrites its metadata")
	if err != nil || !store.written {
		return
	}
	st := store.stored
	vAssert(string(store.body) == string(f.body), "resync does not touch the body")
	ownAfter, _, _ := st.IsSGWrite(ctx, store.body)
	if ownBefore {
		vCover("resync-of-gateway-owned-document")
		vAssert(ownAfter, "the gateway's own metadata rewrite is not taken for an external write")
	} else if !bodySame || !ownButForXattr {
		vCover("resync-with-pending-external-write")
		vAssert(!ownAfter, "an external write that was not imported before resync is still recognised as external afterwards")
	} else {
		// only the user xattr differs from what the gateway last saw: resync evaluates the sync function with the current
		// user xattr and records its checksum, which is what importing that change would have done - either answer is fine
		vCover("resync-with-pending-user-xattr-change")
	}
	// the rewrite identifies itself as a metadata-only update of the version it found
	vAssert(st.MetadataOnlyUpdate != nil && st.MetadataOnlyUpdate.HexCAS == base.CasToString(st.Cas), "the metadata-only update carries the CAS of the rewrite")
	if st.MetadataOnlyUpdate != nil && (doc.MetadataOnlyUpdate == nil) {
		vAssert(st.MetadataOnlyUpdate.PreviousHexCAS == base.CasToString(f.cas), "the metadata-only update records the CAS of the version it rewrote")
	}
}
