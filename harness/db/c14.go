//go:build verif

package db

import (
	"context"

	sgbucket "github.com/couchbase/sg-bucket"
	"github.com/couchbase/sync_gateway/base"
	"github.com/couchbase/sync_gateway/channels"
)

// C14 (reduced) — the obsolete-attachment sweep of the document write path: the real updateAndReturnDoc /
// documentUpdateFunc / storeOldBodyInRevTreeAndUpdateCurrent / getAttachmentIDsForLeafRevisions / retrieveV2Attachments
// for an update of the winning revision of a document that may also have a conflicting leaf with its own attachments.
// After the write no attachment key still referenced by a leaf revision has been deleted, and a key referenced before
// the write and by no leaf afterwards has been deleted.

var vhAttDigests = [2]string{"sha1-xxxxxxxxxxxxxxxxxxxxxxxxxxx=", "sha1-yyyyyyyyyyyyyyyyyyyyyyyyyyy="}

type vhAttStore struct {
	base.DataStore
	deleted []string
	added   []string
}

func (s *vhAttStore) WriteUpdateWithXattrs(ctx context.Context, k string, xattrs []string, exp uint32, previous *sgbucket.BucketDocument, opts *sgbucket.MutateInOptions, callback sgbucket.WriteUpdateWithXattrsFunc) (uint64, error) {
	_, err := callback([]byte("{}"), map[string][]byte{}, 7)
	if err != nil {
		return 0, err
	}
	return 8, nil
}

func (s *vhAttStore) AddRaw(ctx context.Context, k string, exp uint32, v []byte) (bool, error) {
	s.added = append(s.added, k)
	return true, nil
}

func (s *vhAttStore) Delete(ctx context.Context, k string) error {
	s.deleted = append(s.deleted, k)
	return nil
}

type vhAttWorld struct {
	curAtts   [2]bool // attachments of the winning revision before the write
	leafAtts  [2]bool // attachments of the conflicting leaf
	hasLeaf   bool
	newAtts   [2]bool // attachments of the new revision
	tombstone bool
	onBranch  bool    // the new revision goes onto the conflicting (non-winning) branch
	displace  bool    // ... and takes over as the current revision (same generation, higher digest)
	curRevpos int     // generation at which the winning revision's attachments were added (1, or 3 = by the winner itself)
	uploaded  [2]bool // which of the new revision's attachments arrive with data (the others are stubs carried over from the parent)
}

var vhAtt *vhAttWorld

func vhAttMeta(has [2]bool) AttachmentsMeta { return vhAttMetaAt(has, 1) }

func vhAttMetaAt(has [2]bool, revpos int) AttachmentsMeta {
	m := AttachmentsMeta{}
	names := [2]string{"x.txt", "y.txt"}
	for i, h := range has {
		if h {
			m[names[i]] = map[string]any{"digest": vhAttDigests[i], "ver": 2, "revpos": revpos, "stub": true}
		}
	}
	return m
}

func vhAttUnmarshal(c *DatabaseCollection, ctx context.Context, docid string, data []byte, xattrs map[string][]byte, cas uint64, level DocumentUnmarshalLevel) (*Document, error) {
	w := vhAtt
	doc := NewDocument("doc")
	doc.Sequence = 5
	doc.History = RevTree{"1-a": &RevInfo{ID: "1-a"}, "2-b": &RevInfo{ID: "2-b", Parent: "1-a"}, "3-b": &RevInfo{ID: "3-b", Parent: "2-b"}}
	if w.hasLeaf {
		doc.History["2-a"] = &RevInfo{ID: "2-a", Parent: "1-a", HasAttachments: w.leafAtts[0] || w.leafAtts[1], Body: vhAttLeafBody(w.leafAtts)}
	}
	doc.SetRevTreeID("3-b")
	doc.Channels = channels.ChannelMap{}
	revpos := w.curRevpos
	if revpos == 0 {
		revpos = 1
	}
	doc.SetAttachments(vhAttMetaAt(w.curAtts, revpos))
	doc._rawBody = []byte("{}")
	doc.HLV = NewHybridLogicalVector()
	doc.HLV.SourceID, doc.HLV.Version = "A", 3
	return doc, nil
}

func vhAttGetRevision(c *DatabaseCollection, ctx context.Context, doc *Document, revid string) ([]byte, AttachmentsMeta, base.Set, error) {
	if revid == "2-a" {
		return []byte("{}"), vhAttMeta(vhAtt.leafAtts), nil, nil
	}
	if revid == doc.GetRevTreeID() {
		// the real getRevision answers with the document-level attachment list for the current revision
		return []byte("{}"), doc.Attachments(), nil, nil
	}
	if br, _ := vhAttBranchRev(vhAtt); vhAtt.onBranch && (revid == br || (vhAtt.displace && revid == "3-b")) {
		// a non-winning revision's attachments are read from its stored body; the harness hands back what the write stored
		return []byte("{}"), vhAttStoredBranchAtts(doc, revid), nil, nil
	}
	vFail("harness: attachments requested for an unexpected revision")
	return nil, nil, nil, nil
}

// vhAttBranchRev: the revision written by an on-branch write (child of the conflicting leaf, or a new conflicting leaf).
func vhAttBranchRev(w *vhAttWorld) (rev, parent string) {
	if w.displace {
		return "3-c", "2-a"
	}
	if w.hasLeaf {
		return "3-a", "2-a"
	}
	return "2-a", "1-a"
}

// vhAttJSONMarshal stands in for base.JSONMarshal on this path: attachment metadata becomes a two-character token
// naming the subset, anything else an opaque constant.
func vhAttJSONMarshal(v any) ([]byte, error) {
	if m, ok := v.(AttachmentsMeta); ok {
		out := []byte(`"NN"`)
		if _, has := m["x.txt"]; has {
			out[1] = 'Y'
		}
		if _, has := m["y.txt"]; has {
			out[2] = 'Y'
		}
		return out, nil
	}
	return []byte(`"?"`), nil
}

// vhAttStoredBranchAtts decodes what the write stored with a non-winning revision's body (the inverse of
// vhAttJSONMarshal inside the body the real code built).
func vhAttStoredBranchAtts(doc *Document, revid string) AttachmentsMeta {
	info, err := doc.History.getInfo(revid)
	if err != nil || info == nil {
		return nil
	}
	b := info.Body
	marker := `"` + BodyAttachments + `":"`
	for i := 0; i+len(marker)+2 <= len(b); i++ {
		if string(b[i:i+len(marker)]) == marker {
			return vhAttMeta([2]bool{b[i+len(marker)] == 'Y', b[i+len(marker)+1] == 'Y'})
		}
	}
	return nil
}

// vhAttLeafBody: the stored body of a non-winning leaf with its attachment metadata stamped in (token form, see
// vhAttJSONMarshal).
func vhAttLeafBody(has [2]bool) []byte {
	if !has[0] && !has[1] {
		return []byte("{}")
	}
	b := []byte(`{"` + BodyAttachments + `":"NN"}`)
	for i, h := range has {
		if h {
			b[len(b)-4+i] = 'Y'
		}
	}
	return b
}

// vhAttBodyUnmarshal stands in for Body.Unmarshal (JSON decoding) on the stored body of a non-winning revision.
func vhAttBodyUnmarshal(b *Body, data []byte) error {
	*b = Body{}
	marker := `"` + BodyAttachments + `":"`
	for i := 0; i+len(marker)+2 <= len(data); i++ {
		if string(data[i:i+len(marker)]) == marker {
			if m := vhAttMeta([2]bool{data[i+len(marker)] == 'Y', data[i+len(marker)+1] == 'Y'}); len(m) > 0 {
				(*b)[BodyAttachments] = map[string]any(m)
			}
		}
	}
	return nil
}

func vhAttSha256(key []byte) string { return "DOCHASH" }

func vhAttMarkPrincipals(db *DatabaseCollectionWithUser, ctx context.Context, docid string, newRevID string, changedPrincipals, changedRoleUsers []string, invalSeq uint64) {
}

func vhAttPostWrite(db *DatabaseCollectionWithUser, ctx context.Context, doc *Document, casOut uint64) *Document {
	return doc
}

func vhAttCorrectVersion(db *DatabaseCollectionWithUser, ctx context.Context, key string, doc *Document, casOut uint64) *Document {
	return doc
}

func vhAttBodyBytes(doc *Document, ctx context.Context) ([]byte, error) { return []byte("{}"), nil }

func vhAttRunSyncFn(db *DatabaseCollectionWithUser, ctx context.Context, doc *Document, body Body, metaMap map[string]any, newRevId string) (*uint32, string, base.Set, channels.AccessMap, channels.AccessMap, error) {
	return nil, "", base.SetOf("A"), nil, nil, nil
}

func vhAttPersistBodies(doc *Document, ctx context.Context, datastore base.DataStore) error {
	return nil
}

func vhAttMarshal(doc *Document) (data, syncXattr, vvXattr, mouXattr, globalXattr []byte, err error) {
	return []byte("{}"), []byte("{}"), nil, nil, nil, nil
}

func vhAttSetup() (*DatabaseCollectionWithUser, *vhAttStore) {
	alloc, _ := vhNewAllocator(false)
	vAssume(alloc.last >= 10)
	dbStats := &base.DbStats{DatabaseStats: vhDBStats()}
	dbStats.DatabaseStats.NumDocWrites, dbStats.DatabaseStats.DocWritesBytes, dbStats.DatabaseStats.DocWritesXattrBytes = &base.SgwIntStat{}, &base.SgwIntStat{}, &base.SgwIntStat{}
	dbStats.DatabaseStats.ConflictWriteCount, dbStats.DatabaseStats.TombstoneCount = &base.SgwIntStat{}, &base.SgwIntStat{}
	dbStats.CBLReplicationPushStats = &base.CBLReplicationPushStats{AttachmentPushCount: &base.SgwIntStat{}, AttachmentPushBytes: &base.SgwIntStat{}}
	dbc := &DatabaseContext{sequences: alloc, RevsLimit: 1000, DbStats: dbStats, EventMgr: &EventManager{}}
	store := &vhAttStore{}
	col := &DatabaseCollectionWithUser{DatabaseCollection: &DatabaseCollection{dbCtx: dbc, dataStore: store, ScopeName: base.DefaultScope, Name: base.DefaultCollection}}
	col.collectionStats = &base.CollectionStats{NumDocWrites: &base.SgwIntStat{}, DocWritesBytes: &base.SgwIntStat{}}
	return col, store
}

// vhAttNewRevision draws the new revision's attachments: each is either uploaded with the write (data) or a stub carried
// over from the parent revision (only possible if the parent has it).
func vhAttNewRevision(w *vhAttWorld, parentHas [2]bool) {
	w.newAtts = vhAttSubset()
	for i := range w.newAtts {
		if w.newAtts[i] {
			w.uploaded[i] = vNondetBool()
			vAssume(parentHas[i] || w.uploaded[i])
		}
	}
}

// vhAttUploads: what storeAttachments hands to the write for the uploaded attachments (keyed by attachment key).
func vhAttUploads(w *vhAttWorld) updatedAttachments {
	var up updatedAttachments
	names := [2]string{"x.txt", "y.txt"}
	for i, dg := range vhAttDigests {
		if w.newAtts[i] && w.uploaded[i] {
			if up == nil {
				up = updatedAttachments{}
			}
			up[MakeAttachmentKey(AttVersion2, "doc", dg)] = updatedAttachment{body: []byte("data"), created: true, name: names[i]}
		}
	}
	return up
}

func vhAttHas(keys []string, key string) bool {
	for _, k := range keys {
		if k == key {
			return true
		}
	}
	return false
}

func vhAttSubset() [2]bool { return [2]bool{vNondetBool(), vNondetBool()} }

// VHarness_C14_ObsoleteSweep: one update (or tombstone) of the winning revision.
func VHarness_C14_ObsoleteSweep() {
	ctx := context.Background()
	w := &vhAttWorld{curAtts: vhAttSubset(), hasLeaf: vNondetBool(), tombstone: vNondetBool()}
	if w.hasLeaf {
		w.leafAtts = vhAttSubset()
	}
	if !w.tombstone {
		vhAttNewRevision(w, w.curAtts)
	}
	vhAtt = w
	col, store := vhAttSetup()
	callback := func(d *Document) (*Document, updatedAttachments, bool, *uint32, error) {
		if err := d.History.addRevision(ctx, d.ID, RevInfo{ID: "4-c", Parent: "3-b", Deleted: w.tombstone}); err != nil {
			return nil, nil, false, nil, err
		}
		nd := &Document{ID: d.ID, RevID: "4-c", Deleted: w.tombstone}
		nd.SetAttachments(vhAttMeta(w.newAtts))
		return nd, vhAttUploads(w), false, nil, nil
	}
	doc, _, err := col.updateAndReturnDoc(ctx, "doc", true, nil, nil, ExistingVersion, nil, false, false, callback)
	vAssert(err == nil, "the write succeeds")
	if err != nil {
		return
	}
	for i, dg := range vhAttDigests {
		key := MakeAttachmentKey(AttVersion2, "doc", dg)
		deleted := false
		for _, k := range store.deleted {
			if k == key {
				deleted = true
			}
		}
		before := w.curAtts[i] || (w.hasLeaf && w.leafAtts[i])
		// after the write the leaves are 4-c (with the new revision's attachments) and, if present, 2-a
		after := w.newAtts[i] || (w.hasLeaf && w.leafAtts[i])
		if w.tombstone && w.hasLeaf {
			// the tombstone hands the document over to the conflicting leaf 2-a, whose attachments become the document's
			vCover("tombstone-promotes-conflicting-leaf")
			_, listed := doc.Attachments()[[2]string{"x.txt", "y.txt"}[i]]
			vAssert(doc.GetRevTreeID() == "2-a", "the conflicting leaf becomes current when the winning branch is tombstoned")
			vAssert(listed == w.leafAtts[i], "the document lists exactly the attachments of the revision that became current")
		}
		if w.newAtts[i] && w.uploaded[i] {
			vAssert(vhAttHas(store.added, key), "attachment data uploaded with the write is stored")
		}
		if after {
			vCover("attachment-still-referenced")
			vAssert(!deleted, "attachment data still referenced by a leaf revision is not removed")
		}
		if before && !after {
			vCover("attachment-obsolete")
			vAssert(deleted, "attachment data no longer referenced by any leaf revision is cleaned up")
		}
		if !before {
			vAssert(!deleted, "nothing that was not referenced before the write is deleted")
		}
	}
}

// VHarness_C14_BranchWrite: a new revision (or tombstone) written onto the conflicting, non-winning branch - either a
// child of the existing conflicting leaf 2-a, or a new conflicting leaf when there is none. The winning revision 3-b
// stays current. Its attachments must stay listed on the document and their data must stay in the bucket; the new
// leaf's attachments must be readable from where non-winning revisions' attachments are read from, and their data must
// stay too; data referenced by neither leaf any more (the replaced leaf 2-a's) is cleaned up.
func VHarness_C14_BranchWrite() {
	ctx := context.Background()
	w := &vhAttWorld{curAtts: vhAttSubset(), hasLeaf: vNondetBool(), tombstone: vNondetBool(), onBranch: true}
	if w.hasLeaf {
		w.leafAtts = vhAttSubset()
	}
	if !w.tombstone {
		parentHas := [2]bool{}
		if w.hasLeaf {
			parentHas = w.leafAtts
		}
		vhAttNewRevision(w, parentHas)
	}
	vhAtt = w
	col, store := vhAttSetup()
	newRev, parent := vhAttBranchRev(w)
	callback := func(d *Document) (*Document, updatedAttachments, bool, *uint32, error) {
		if err := d.History.addRevision(ctx, d.ID, RevInfo{ID: newRev, Parent: parent, Deleted: w.tombstone}); err != nil {
			return nil, nil, false, nil, err
		}
		nd := &Document{ID: d.ID, RevID: newRev, Deleted: w.tombstone}
		nd.SetAttachments(vhAttMeta(w.newAtts))
		return nd, vhAttUploads(w), false, nil, nil
	}
	doc, _, err := col.updateAndReturnDoc(ctx, "doc", true, nil, nil, ExistingVersion, nil, false, false, callback)
	vAssert(err == nil, "the write succeeds")
	if err != nil {
		return
	}
	vAssert(doc.GetRevTreeID() == "3-b", "the winning revision stays current")
	names := [2]string{"x.txt", "y.txt"}
	stored := vhAttStoredBranchAtts(doc, newRev)
	for i, dg := range vhAttDigests {
		key := MakeAttachmentKey(AttVersion2, "doc", dg)
		deleted := false
		for _, k := range store.deleted {
			if k == key {
				deleted = true
			}
		}
		_, listed := doc.Attachments()[names[i]]
		vAssert(listed == w.curAtts[i], "the current revision's attachment list is untouched by a write on another branch")
		_, onLeaf := stored[names[i]]
		vAssert(onLeaf == w.newAtts[i], "the new non-winning revision's attachments are recorded with it")
		before := w.curAtts[i] || (w.hasLeaf && w.leafAtts[i])
		after := w.curAtts[i] || w.newAtts[i]
		if w.newAtts[i] && w.uploaded[i] {
			vAssert(vhAttHas(store.added, key), "attachment data uploaded with the write is stored")
		}
		if after {
			vCover("branch-attachment-still-referenced")
			vAssert(!deleted, "attachment data still referenced by a leaf revision is not removed")
		}
		if before && !after {
			vCover("branch-attachment-obsolete")
			vAssert(deleted, "attachment data no longer referenced by any leaf revision is cleaned up")
		}
		if !before {
			vAssert(!deleted, "nothing that was not referenced before the write is deleted")
		}
	}
}

// VHarness_C14_DisplacedWinner: a revision written onto the conflicting branch that takes over as the current revision
// (3-c, child of the conflicting leaf 2-a, same generation as the winner 3-b and a higher digest). The displaced winner
// 3-b stays a leaf: its attachments - whether added long ago or by 3-b itself - must be recorded with its backed-up
// body and their data must stay; the document now lists the new revision's attachments.
func VHarness_C14_DisplacedWinner() {
	ctx := context.Background()
	w := &vhAttWorld{curAtts: vhAttSubset(), hasLeaf: true, onBranch: true, displace: true, curRevpos: 1}
	if vNondetBool() {
		w.curRevpos = 3
		vCover("winner-added-its-own-attachments")
	}
	w.leafAtts = vhAttSubset()
	vhAttNewRevision(w, w.leafAtts)
	vhAtt = w
	col, store := vhAttSetup()
	callback := func(d *Document) (*Document, updatedAttachments, bool, *uint32, error) {
		if err := d.History.addRevision(ctx, d.ID, RevInfo{ID: "3-c", Parent: "2-a"}); err != nil {
			return nil, nil, false, nil, err
		}
		nd := &Document{ID: d.ID, RevID: "3-c"}
		nd.SetAttachments(vhAttMeta(w.newAtts))
		return nd, vhAttUploads(w), false, nil, nil
	}
	doc, _, err := col.updateAndReturnDoc(ctx, "doc", true, nil, nil, ExistingVersion, nil, false, false, callback)
	vAssert(err == nil, "the write succeeds")
	if err != nil {
		return
	}
	vAssert(doc.GetRevTreeID() == "3-c", "the new revision takes over as the current revision")
	names := [2]string{"x.txt", "y.txt"}
	stored := vhAttStoredBranchAtts(doc, "3-b")
	for i, dg := range vhAttDigests {
		key := MakeAttachmentKey(AttVersion2, "doc", dg)
		deleted := vhAttHas(store.deleted, key)
		_, listed := doc.Attachments()[names[i]]
		vAssert(listed == w.newAtts[i], "the document lists the attachments of the revision that became current")
		_, onOld := stored[names[i]]
		vAssert(onOld == w.curAtts[i], "the displaced winner, still a leaf, keeps its attachments recorded with its stored body")
		before := w.curAtts[i] || w.leafAtts[i]
		after := w.curAtts[i] || w.newAtts[i]
		if after {
			vCover("displaced-attachment-still-referenced")
			vAssert(!deleted, "attachment data still referenced by a leaf revision is not removed")
		}
		if before && !after {
			vAssert(deleted, "attachment data no longer referenced by any leaf revision is cleaned up")
		}
		if !before {
			vAssert(!deleted, "nothing that was not referenced before the write is deleted")
		}
	}
}
