//go:build verif

package db

import (
	"context"

	sgbucket "github.com/couchbase/sg-bucket"
	"github.com/couchbase/sync_gateway/base"
	"github.com/couchbase/sync_gateway/channels"
)

// C14 (reduced) — the obsolete-attachment sweep of the document write path: the real updateAndReturnDoc /
// documentUpdateFunc / storeOldBodyInRevTreeAndUpdateCurrent / getAttachmentIDsForLeafRevisions / retrieveV2Attachments
// for an update of the winning revision of a document that may also have a conflicting leaf with its own attachments.
// After the write no attachment key still referenced by a leaf revision has been deleted, and a key referenced before
// the write and by no leaf afterwards has been deleted.

var vhAttDigests = [2]string{"sha1-xxxxxxxxxxxxxxxxxxxxxxxxxxx=", "sha1-yyyyyyyyyyyyyyyyyyyyyyyyyyy="}

type vhAttStore struct {
	base.DataStore
	deleted []string
}

func (s *vhAttStore) WriteUpdateWithXattrs(ctx context.Context, k string, xattrs []string, exp uint32, previous *sgbucket.BucketDocument, opts *sgbucket.MutateInOptions, callback sgbucket.WriteUpdateWithXattrsFunc) (uint64, error) {
	_, err := callback([]byte("{}"), map[string][]byte{}, 7)
	if err != nil {
		return 0, err
	}
	return 8, nil
}

func (s *vhAttStore) Delete(ctx context.Context, k string) error {
	s.deleted = append(s.deleted, k)
	return nil
}

type vhAttWorld struct {
	curAtts   [2]bool // attachments of the winning revision before the write
	leafAtts  [2]bool // attachments of the conflicting leaf
	hasLeaf   bool
	newAtts   [2]bool // attachments of the new revision
	tombstone bool
}

var vhAtt *vhAttWorld

func vhAttMeta(has [2]bool) AttachmentsMeta {
	m := AttachmentsMeta{}
	names := [2]string{"x.txt", "y.txt"}
	for i, h := range has {
		if h {
			m[names[i]] = map[string]any{"digest": vhAttDigests[i], "ver": 2, "revpos": 1, "stub": true}
		}
	}
	return m
}

func vhAttUnmarshal(c *DatabaseCollection, ctx context.Context, docid string, data []byte, xattrs map[string][]byte, cas uint64, level DocumentUnmarshalLevel) (*Document, error) {
	w := vhAtt
	doc := NewDocument("doc")
	doc.Sequence = 5
	doc.History = RevTree{"1-a": &RevInfo{ID: "1-a"}, "2-b": &RevInfo{ID: "2-b", Parent: "1-a"}, "3-b": &RevInfo{ID: "3-b", Parent: "2-b"}}
	if w.hasLeaf {
		doc.History["2-a"] = &RevInfo{ID: "2-a", Parent: "1-a", HasAttachments: w.leafAtts[0] || w.leafAtts[1], Body: []byte("{}")}
	}
	doc.SetRevTreeID("3-b")
	doc.Channels = channels.ChannelMap{}
	doc.SetAttachments(vhAttMeta(w.curAtts))
	doc.HLV = NewHybridLogicalVector()
	doc.HLV.SourceID, doc.HLV.Version = "A", 3
	return doc, nil
}

func vhAttGetRevision(c *DatabaseCollection, ctx context.Context, doc *Document, revid string) ([]byte, AttachmentsMeta, base.Set, error) {
	if revid == "2-a" {
		return []byte("{}"), vhAttMeta(vhAtt.leafAtts), nil, nil
	}
	vFail("harness: attachments requested for an unexpected revision")
	return nil, nil, nil, nil
}

func vhAttSha256(key []byte) string { return "DOCHASH" }

func vhAttMarkPrincipals(db *DatabaseCollectionWithUser, ctx context.Context, docid string, newRevID string, changedPrincipals, changedRoleUsers []string, invalSeq uint64) {
}

func vhAttPostWrite(db *DatabaseCollectionWithUser, ctx context.Context, doc *Document, casOut uint64) *Document {
	return doc
}

func vhAttCorrectVersion(db *DatabaseCollectionWithUser, ctx context.Context, key string, doc *Document, casOut uint64) *Document {
	return doc
}

func vhAttBodyBytes(doc *Document, ctx context.Context) ([]byte, error) { return []byte("{}"), nil }

func vhAttRunSyncFn(db *DatabaseCollectionWithUser, ctx context.Context, doc *Document, body Body, metaMap map[string]any, newRevId string) (*uint32, string, base.Set, channels.AccessMap, channels.AccessMap, error) {
	return nil, "", base.SetOf("A"), nil, nil, nil
}

func vhAttPersistBodies(doc *Document, ctx context.Context, datastore base.DataStore) error {
	return nil
}

func vhAttMarshal(doc *Document) (data, syncXattr, vvXattr, mouXattr, globalXattr []byte, err error) {
	return []byte("{}"), []byte("{}"), nil, nil, nil, nil
}

func vhAttSubset() [2]bool { return [2]bool{vNondetBool(), vNondetBool()} }

// VHarness_C14_ObsoleteSweep: one update (or tombstone) of the winning revision.
func VHarness_C14_ObsoleteSweep() {
	ctx := context.Background()
	w := &vhAttWorld{curAtts: vhAttSubset(), hasLeaf: vNondetBool(), tombstone: vNondetBool()}
	if w.hasLeaf {
		w.leafAtts = vhAttSubset()
	}
	if !w.tombstone {
		w.newAtts = vhAttSubset()
	}
	// a tombstone that hands the document over to the conflicting leaf promotes that leaf's stored body (JSON decoding):
	// outside this harness
	vAssume(!(w.tombstone && w.hasLeaf))
	vhAtt = w
	alloc, _ := vhNewAllocator(false)
	vAssume(alloc.last >= 10)
	dbStats := &base.DbStats{DatabaseStats: vhDBStats()}
	dbStats.DatabaseStats.NumDocWrites, dbStats.DatabaseStats.DocWritesBytes, dbStats.DatabaseStats.DocWritesXattrBytes = &base.SgwIntStat{}, &base.SgwIntStat{}, &base.SgwIntStat{}
	dbStats.DatabaseStats.ConflictWriteCount, dbStats.DatabaseStats.TombstoneCount = &base.SgwIntStat{}, &base.SgwIntStat{}
	dbc := &DatabaseContext{sequences: alloc, RevsLimit: 1000, DbStats: dbStats, EventMgr: &EventManager{}}
	store := &vhAttStore{}
	col := &DatabaseCollectionWithUser{DatabaseCollection: &DatabaseCollection{dbCtx: dbc, dataStore: store, ScopeName: base.DefaultScope, Name: base.DefaultCollection}}
	col.collectionStats = &base.CollectionStats{NumDocWrites: &base.SgwIntStat{}, DocWritesBytes: &base.SgwIntStat{}}
	callback := func(d *Document) (*Document, updatedAttachments, bool, *uint32, error) {
		if err := d.History.addRevision(ctx, d.ID, RevInfo{ID: "4-c", Parent: "3-b", Deleted: w.tombstone}); err != nil {
			return nil, nil, false, nil, err
		}
		nd := &Document{ID: d.ID, RevID: "4-c", Deleted: w.tombstone}
		nd.SetAttachments(vhAttMeta(w.newAtts))
		return nd, nil, false, nil, nil
	}
	_, _, err := col.updateAndReturnDoc(ctx, "doc", true, nil, nil, ExistingVersion, nil, false, false, callback)
	vAssert(err == nil, "the write succeeds")
	if err != nil {
		return
	}
	for i, dg := range vhAttDigests {
		key := MakeAttachmentKey(AttVersion2, "doc", dg)
		deleted := false
		for _, k := range store.deleted {
			if k == key {
				deleted = true
			}
		}
		before := w.curAtts[i] || (w.hasLeaf && w.leafAtts[i])
		// after the write the leaves are 4-c (with the new revision's attachments) and, if present, 2-a
		after := w.newAtts[i] || (w.hasLeaf && w.leafAtts[i])
		if after {
			vCover("attachment-still-referenced")
			vAssert(!deleted, "attachment data still referenced by a leaf revision is not removed")
		}
		if before && !after {
			vCover("attachment-obsolete")
			vAssert(deleted, "attachment data no longer referenced by any leaf revision is cleaned up")
		}
		if !before {
			vAssert(!deleted, "nothing that was not referenced before the write is deleted")
		}
	}
}
