//go:build verif

package db

import (
	"context"

	"github.com/couchbase/sync_gateway/base"
	"github.com/couchbase/sync_gateway/channels"
)

// C01 — multi-channel insertion (channelCacheImpl.AddToCache): a change arriving from the feed is added to the cache of
// every resident channel it concerns - the channels its document is in, the channels the document left at this very
// sequence (as a removal entry) and the all-documents channel - and the listeners of every such channel are notified
// whether or not the channel is resident in the cache (waiting feeds on non-resident channels read through a bypass
// cache and rely on the notification alone). Channels the document left earlier are neither touched nor notified.

type vhMIWorld struct {
	resident [3]bool // A, B, *
	caches   [3]*singleChannelCacheImpl
}

var vhMI *vhMIWorld

var vhMINames = [3]string{"A", "B", channels.UserStarChannel}

func vhMIGetActive(c *channelCacheImpl, ctx context.Context, channel channels.ID) (*singleChannelCacheImpl, bool) {
	for i, n := range vhMINames {
		if n == channel.Name && vhMI.resident[i] {
			return vhMI.caches[i], true
		}
	}
	return nil, false
}

func VHarness_C01_MultiInsert() {
	ctx := context.Background()
	w := &vhMIWorld{}
	vhMI = w
	seq := vNondetU64()
	vAssume(seq >= 10 && seq < 1<<62)
	truth := &vhChanTruth{base: 1, seqOff: [vhNDocs]int{-1, -1, -1}}
	for i := range w.resident {
		w.resident[i] = vNondetBool()
		w.caches[i] = vhNewSingleCache(truth, 0, 10)
		w.caches[i].channelID = channels.NewID(vhMINames[i], 0)
	}
	c := &channelCacheImpl{highCacheSequence: vNondetU64()}
	vAssume(c.highCacheSequence < 1<<62)
	highBefore := c.highCacheSequence
	// per channel A, B: 0 absent, 1 member, 2 left at this sequence, 3 left earlier
	var state [2]int
	chMap := channels.ChannelMap{}
	for i := range state {
		state[i] = vNondetRange(0, 3)
		switch state[i] {
		case 1:
			chMap[vhMINames[i]] = nil
		case 2:
			chMap[vhMINames[i]] = &channels.ChannelRemoval{Seq: seq, Rev: channels.RevAndVersion{RevTreeID: "1-a"}}
		case 3:
			earlier := vNondetU64()
			vAssume(earlier >= 1 && earlier < seq)
			chMap[vhMINames[i]] = &channels.ChannelRemoval{Seq: earlier, Rev: channels.RevAndVersion{RevTreeID: "1-a"}}
		}
	}
	change := &LogEntry{Sequence: seq, DocID: "doc", RevID: "2-a", Channels: chMap}
	notified := c.AddToCache(ctx, change)

	for i, name := range vhMINames {
		concerned := i == 2 || state[i] == 1 || state[i] == 2
		n := 0
		for _, id := range notified {
			if id.Name == name {
				n++
			}
		}
		if concerned {
			vAssert(n == 1, "listeners of every channel the change concerns are notified once, resident in the cache or not")
		} else {
			vAssert(n == 0, "channels the change does not concern are not notified")
		}
		entries := w.caches[i].logs
		if concerned && w.resident[i] {
			vCover("entry-cached")
			vAssert(len(entries) == 1 && entries[0].Sequence == seq && entries[0].DocID == "doc", "the change is added to every resident channel cache it concerns")
			if len(entries) == 1 {
				isRemoval := entries[0].Flags&channels.Removed != 0
				vAssert(isRemoval == (i < 2 && state[i] == 2), "the entry is a removal notice exactly in the channels the document left at this sequence")
			}
		} else {
			vAssert(len(entries) == 0, "no other channel cache is touched")
		}
	}
	want := highBefore
	if seq > want {
		want = seq
	}
	vAssert(c.highCacheSequence == want, "the cache's high sequence advances to the change's sequence and never goes back")
}

var _ = base.SetOf
