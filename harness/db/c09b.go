//go:build verif

package db

import (
	"context"

	sgbucket "github.com/couchbase/sg-bucket"
	"github.com/couchbase/sync_gateway/base"
)

// C09 — the real importDoc (its logic lives in the callback it hands to updateAndReturnDoc) for both triggers (feed,
// on demand): an external write is turned into exactly one new revision, a child of the revision that was current;
// when the other import path has imported it first, or the gateway has written the document since, no further
// revision is added; a feed import never imports a version other than the one that triggered it.
//
// updateAndReturnDoc is redirected to a harness compare-and-swap loop: it runs the callback on the document as it is
// stored now; before the write commits, the stored document may change once (imported by the other path, written by
// the gateway, or written again externally) and the callback runs again, with its closure state, on the new state.

type vhImpWorld struct {
	cas       uint64 // CAS of the stored document
	syncCas   uint64 // CAS recorded in _sync.cas (equal to cas: last written by the gateway)
	body      []byte // body as stored now
	sgBody    []byte // body as last written by the gateway (what _sync's checksum describes)
	revs      []string
	attempts  int
	changed   int // 0 none, 1 imported by the other path / gateway write, 2 another external write
	committed bool
	newRev    string
	parentAt  string
	casAt     uint64
}

var vhImp *vhImpWorld

func (w *vhImpWorld) doc() *Document {
	d := NewDocument("doc")
	d.Cas = w.cas
	d.SyncData.Cas = base.CasToString(w.syncCas)
	d.History = RevTree{}
	parent := ""
	for _, r := range w.revs {
		d.History[r] = &RevInfo{ID: r, Parent: parent}
		parent = r
	}
	d.SetRevTreeID(parent)
	d.Sequence = 5
	return d
}

func vhImpUpdateAndReturnDoc(db *DatabaseCollectionWithUser, ctx context.Context, docid string, allowImport bool, expiry *uint32, opts *sgbucket.MutateInOptions,
	docUpdateEvent DocUpdateType, existingDoc *sgbucket.BucketDocument, isImport bool, updateRevCache bool, callback updateAndReturnDocCallback) (*Document, string, error) {
	w := vhImp
	for {
		w.attempts++
		d := w.doc()
		tip := d.GetRevTreeID()
		casNow := w.cas
		newDoc, _, skipped, _, err := callback(d)
		if err != nil {
			vAssert(len(d.History) == len(w.revs), "a cancelled import adds no revision")
			return nil, "", err
		}
		if w.attempts == 1 && vNondetBool() {
			// compare-and-swap mismatch: the stored document changed before this import could be written
			switch vNondetRange(1, 2) {
			case 1: // imported by the other path, or rewritten by the gateway: a gateway write at a new CAS
				w.changed = 1
				w.cas = w.cas + 1 + uint64(vNondetRange(0, 3))
				w.syncCas = w.cas
				w.sgBody = w.body
				w.revs = append(w.revs, "2-f")
			case 2: // another external write: new content, or exactly the bytes the gateway had written
				w.changed = 2
				w.cas = w.cas + 1 + uint64(vNondetRange(0, 3))
				w.body = []byte{'{', vNondetU8(), '}'}
			}
			continue
		}
		w.committed = true
		w.parentAt, w.casAt = tip, casNow
		if !skipped {
			w.newRev = newDoc.RevID
			ri, ok := d.History[newDoc.RevID]
			vAssert(ok && ri.Parent == tip, "the imported revision is a child of the revision that was current")
			vAssert(len(d.History) == len(w.revs)+1, "an import adds exactly one revision")
		}
		return d, newDoc.RevID, nil
	}
}

func vhImpIsSGWrite(doc *Document, ctx context.Context, rawBody []byte) (bool, bool, bool) {
	// the real predicate reduced to the fields this harness controls: CAS match => gateway write; otherwise the
	// checksum of the given body against what the gateway last wrote decides (the full predicate is decided by the
	// fingerprint harnesses). The body handed in must be the body as stored now.
	vAssert(string(rawBody) == string(vhImp.body), "the own-write check is made on the body as stored now")
	if doc.SyncData.Cas == base.CasToString(doc.Cas) {
		return true, false, false
	}
	if string(rawBody) == string(vhImp.sgBody) {
		return true, true, false
	}
	return false, false, true
}

func vhImpBody(doc *Document, ctx context.Context) Body { return Body{"k": "v"} }

func vhImpBodyBytes(doc *Document, ctx context.Context) ([]byte, error) { return vhImp.body, nil }

func vhImpCreateRevID(generation int, parentRevID string, bodyBytes []byte) string {
	vAssert(string(bodyBytes) == string(vhImp.body), "the imported revision's digest is computed from the body as stored now")
	return vhC05CreateRevID(generation, parentRevID, bodyBytes)
}

func vhImpBackup(db *DatabaseCollectionWithUser, ctx context.Context, docid, revid string) error {
	return nil
}

// VHarness_C09_ImportCallback: one importDoc triggered by an external write at CAS c1 on a document last written by
// the gateway at CAS c0.
func VHarness_C09_ImportCallback() {
	ctx := context.Background()
	c0 := vNondetU64()
	vAssume(c0 >= 1 && c0 < 1<<60)
	c1 := c0 + 1 + uint64(vNondetRange(0, 3))
	w := &vhImpWorld{cas: c1, syncCas: c0, revs: []string{"1-a"}}
	w.sgBody = []byte{'{', vNondetU8(), '}'}
	w.body = []byte{'{', vNondetU8(), '}'}
	vAssume(string(w.body) != string(w.sgBody)) // the external write changed the body
	vhImp = w
	col := &DatabaseCollectionWithUser{DatabaseCollection: &DatabaseCollection{dbCtx: &DatabaseContext{}, ScopeName: base.DefaultScope, Name: base.DefaultCollection}}
	col.dbCtx.DbStats = &base.DbStats{SharedBucketImportStats: &base.SharedBucketImportStats{ImportCount: &base.SgwIntStat{}, ImportHighSeq: &base.SgwIntStat{}, ImportProcessingTime: &base.SgwIntStat{}, ImportCancelCAS: &base.SgwIntStat{}, ImportErrorCount: &base.SgwIntStat{}}, DatabaseStats: &base.DatabaseStats{Crc32MatchCount: &base.SgwIntStat{}}}
	col.collectionStats = &base.CollectionStats{ImportCount: &base.SgwIntStat{}}
	mode := ImportFromFeed
	if vNondetBool() {
		mode = ImportOnDemand
	}
	existing := &sgbucket.BucketDocument{Cas: c1, Body: w.body}
	out, err := col.importDoc(ctx, "doc", Body{"k": "v"}, nil, false, 1, existing, mode)
	_ = out
	switch w.changed {
	case 0:
		vCover("import-uncontended")
		vAssert(err == nil && w.committed && w.newRev != "", "an external write is imported as a new revision")
		vAssert(w.parentAt == "1-a", "the imported revision's parent is the previous current revision")
	case 1:
		vCover("import-lost-race-to-gateway-write")
		vAssert(!w.committed, "a document the gateway has written since (or that was imported by the other path) is not imported again")
		if mode == ImportFromFeed {
			vAssert(err == base.ErrImportCasFailure, "a feed import of a version that is no longer current is cancelled")
		} else {
			vAssert(err == nil, "an on-demand import finding the document already imported succeeds without writing")
		}
	case 2:
		vCover("import-raced-by-external-write")
		if mode == ImportFromFeed {
			vAssert(!w.committed && err == base.ErrImportCasFailure, "a feed import never imports a version other than the one that triggered it")
		} else if string(w.body) == string(w.sgBody) {
			vCover("external-write-restored-gateway-body")
			vAssert(err == nil && !w.committed, "an external write that restores exactly what the gateway wrote needs no new revision")
		} else {
			vAssert(err == nil && w.committed && w.newRev != "", "an on-demand import imports the latest external write")
			vAssert(w.casAt == w.cas, "the on-demand import is based on the document as stored now")
		}
	}
}
