//go:build verif

package db

// C20 — sequence tokens round-trip and order consistently.

func vhSeqID() SequenceID {
	return SequenceID{TriggeredBy: vNondetU64(), LowSeq: vNondetU64(), Seq: vNondetU64()}
}

// VHarness_C20_Order: Before is a strict weak order on the whole 2^192 domain.
func VHarness_C20_Order() {
	a, b, c := vhSeqID(), vhSeqID(), vhSeqID()
	vAssert(!a.Before(a), "irreflexive")
	ab, ba, bc, cb, ac, ca := a.Before(b), b.Before(a), b.Before(c), c.Before(b), a.Before(c), c.Before(a)
	if ab {
		vAssert(!ba, "asymmetric")
		if bc {
			vAssert(ac, "transitive")
		}
	}
	if !ab && !ba && !bc && !cb {
		vAssert(!ac && !ca, "incomparability-transitive")
	}
}

func vhInnerKey(t, q uint64) (uint64, uint64, uint64) {
	if t != 0 {
		return t, 0, q
	}
	return q, 1, 0
}

// vhKey is the documented feed position of a token (DESIGN §3 C20 O5).
func vhKey(s SequenceID) [5]uint64 {
	a, b, c := vhInnerKey(s.TriggeredBy, s.Seq)
	if s.LowSeq != 0 {
		return [5]uint64{s.LowSeq, 2, a, b, c}
	}
	return [5]uint64{a, b, c, 0, 0}
}

func vhLexLess(x, y [5]uint64) bool {
	for i := 0; i < 5; i++ {
		if x[i] != y[i] {
			return x[i] < y[i]
		}
	}
	return false
}

// VHarness_C20_FeedOrder: Before coincides with the lexicographic order of the feed position key.
func VHarness_C20_FeedOrder() {
	a, b := vhSeqID(), vhSeqID()
	vAssert(a.Before(b) == vhLexLess(vhKey(a), vhKey(b)), "before-equals-position-key-order")
}

// VHarness_C20_Safe: SafeSequence never exceeds Seq and is LowSeq exactly when 0 < LowSeq < Seq.
func VHarness_C20_Safe() {
	s := vhSeqID()
	r := s.SafeSequence()
	vAssert(r <= s.Seq, "safe<=seq")
	if s.LowSeq > 0 && s.LowSeq < s.Seq {
		vAssert(r == s.LowSeq, "safe==low")
	} else {
		vAssert(r == s.Seq, "safe==seq")
	}
	vAssert(s.IsNonZero() == (s.Seq != 0), "isnonzero")
}
