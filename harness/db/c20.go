//go:build verif

package db

import "github.com/couchbase/sync_gateway/base"

// C20 — sequence tokens round-trip and order consistently.

func vhSeqID() SequenceID {
	return SequenceID{TriggeredBy: vNondetU64(), LowSeq: vNondetU64(), Seq: vNondetU64()}
}

// VHarness_C20_Order: Before is a strict weak order on the whole 2^192 domain.
func VHarness_C20_Order() {
	a, b, c := vhSeqID(), vhSeqID(), vhSeqID()
	vAssert(!a.Before(a), "irreflexive")
	ab, ba, bc, cb, ac, ca := a.Before(b), b.Before(a), b.Before(c), c.Before(b), a.Before(c), c.Before(a)
	if ab {
		vAssert(!ba, "asymmetric")
		if bc {
			vAssert(ac, "transitive")
		}
	}
	if !ab && !ba && !bc && !cb {
		vAssert(!ac && !ca, "incomparability-transitive")
	}
}

func vhInnerKey(t, q uint64) (uint64, uint64, uint64) {
	if t != 0 {
		return t, 0, q
	}
	return q, 1, 0
}

// vhKey is the documented feed position of a token (DESIGN §3 C20 O5).
func vhKey(s SequenceID) [5]uint64 {
	a, b, c := vhInnerKey(s.TriggeredBy, s.Seq)
	if s.LowSeq != 0 {
		return [5]uint64{s.LowSeq, 2, a, b, c}
	}
	return [5]uint64{a, b, c, 0, 0}
}

func vhLexLess(x, y [5]uint64) bool {
	for i := 0; i < 5; i++ {
		if x[i] != y[i] {
			return x[i] < y[i]
		}
	}
	return false
}

// VHarness_C20_FeedOrder: Before coincides with the lexicographic order of the feed position key.
func VHarness_C20_FeedOrder() {
	a, b := vhSeqID(), vhSeqID()
	vAssert(a.Before(b) == vhLexLess(vhKey(a), vhKey(b)), "before-equals-position-key-order")
}

// VHarness_C20_Safe: SafeSequence never exceeds Seq and is LowSeq exactly when 0 < LowSeq < Seq.
func VHarness_C20_Safe() {
	s := vhSeqID()
	r := s.SafeSequence()
	vAssert(r <= s.Seq, "safe<=seq")
	if s.LowSeq > 0 && s.LowSeq < s.Seq {
		vAssert(r == s.LowSeq, "safe==low")
	} else {
		vAssert(r == s.Seq, "safe==seq")
	}
	vAssert(s.IsNonZero() == (s.Seq != 0), "isnonzero")
}

// vhCanonical is the token that String() documents it writes for s (omitted fields zero).
func vhCanonical(s SequenceID) SequenceID {
	if s.TriggeredBy > 0 && s.Seq < s.TriggeredBy {
		if s.LowSeq > 0 && s.LowSeq < s.TriggeredBy {
			return s
		}
		return SequenceID{TriggeredBy: s.TriggeredBy, Seq: s.Seq}
	}
	if s.LowSeq > 0 && s.LowSeq < s.Seq {
		return SequenceID{LowSeq: s.LowSeq, Seq: s.Seq}
	}
	return SequenceID{Seq: s.Seq}
}

// VHarness_C20_RoundTrip: parse(String(s)) succeeds and yields the canonical form, for every token.
func VHarness_C20_RoundTrip() {
	s := vhSeqID()
	str := s.String()
	p, err := ParsePlainSequenceID(str)
	vAssert(err == nil, "roundtrip-parses")
	want := vhCanonical(s)
	vAssert(p == want, "roundtrip-canonical")
	vAssert(p.SafeSequence() == s.SafeSequence(), "roundtrip-safe-sequence")
	if s.TriggeredBy == 0 || s.Seq < s.TriggeredBy {
		// server-emitted tokens: backfill entries precede their trigger
		vAssert(p.Seq == s.Seq && p.TriggeredBy == s.TriggeredBy, "roundtrip-seq-and-trigger")
	}
	vAssert(!p.Before(want) && !want.Before(p), "roundtrip-same-position")
}

// VHarness_C20_RoundTripJSON: the same through MarshalJSON / the plain-string branch of the JSON parser.
func VHarness_C20_RoundTripJSON() {
	s := vhSeqID()
	js, err := s.MarshalJSON()
	vAssert(err == nil, "marshal-ok")
	p, err := ParseJSONSequenceID(string(js))
	vAssert(err == nil, "json-roundtrip-parses")
	vAssert(p == vhCanonical(s), "json-roundtrip-canonical")
}

func vhIsDigit(b byte) bool { return b >= '0' && b <= '9' }

// vhRefParse is an independent reference parser for D | D:D | D:D?:D (D = decimal digits).
func vhRefParse(str string) (SequenceID, bool) {
	if len(str) == 0 {
		return SequenceID{}, true
	}
	var comps [3]uint64
	var lens [3]int
	n := 0
	for i := 0; i < len(str); i++ {
		c := str[i]
		if c == ':' {
			n++
			if n > 2 {
				return SequenceID{}, false
			}
			continue
		}
		if !vhIsDigit(c) {
			return SequenceID{}, false
		}
		comps[n] = comps[n]*10 + uint64(c-'0')
		lens[n]++
	}
	switch n {
	case 0:
		if lens[0] == 0 {
			return SequenceID{}, false
		}
		return SequenceID{Seq: comps[0]}, true
	case 1:
		if lens[0] == 0 || lens[1] == 0 {
			return SequenceID{}, false
		}
		return SequenceID{TriggeredBy: comps[0], Seq: comps[1]}, true
	}
	if lens[0] == 0 || lens[2] == 0 {
		return SequenceID{}, false
	}
	return SequenceID{LowSeq: comps[0], TriggeredBy: comps[1], Seq: comps[2]}, true
}

// VHarness_C20_Parse: on every string of n bytes the parser agrees with the reference grammar,
// never panics, and rejects malformed input with an error.
func VHarness_C20_Parse() {
	n := vNondetRange(0, vParam("maxlen", 5))
	str := vNondetString(n)
	got, err := ParsePlainSequenceID(str)
	want, ok := vhRefParse(str)
	if ok {
		vAssert(err == nil, "parse-accepts-wellformed")
		vAssert(got == want, "parse-value")
	} else {
		vAssert(err != nil, "parse-rejects-malformed")
		vAssert(got == SequenceID{}, "parse-error-zero-value")
		if err != nil {
			status, _ := base.ErrorAsHTTPStatus(err)
			vAssert(status >= 400 && status < 500, "malformed-token-is-client-error")
		}
	}
}
