//go:build verif

package db

import (
	"context"

	"github.com/couchbase/sync_gateway/base"
	"github.com/couchbase/sync_gateway/channels"
)

// Plumbing of the document write path: the real documentUpdateFunc is executed with its heavy callees replaced by
// recording stubs (engine-side callee intercepts): the sync function's outputs, the revision-body backup, sequence
// assignment, HLV update and revision-body persistence. What is checked is how documentUpdateFunc wires them.

type vhDocUpdLog struct {
	syncOut struct {
		chans        base.Set
		access, role channels.AccessMap
		reject       bool
	}
	backupCalls  int
	backupChans  base.Set
	assignCalls  int
	persistCalls int
	storeOld     int
	recalcCalls  int
	attCalls     int
	attFail      bool
}

var vhDU vhDocUpdLog

func vhDUPrepareSyncFn(db *DatabaseCollectionWithUser, doc *Document, newDoc *Document) (Body, map[string]any, string, error) {
	return Body{}, map[string]any{}, newDoc.RevID, nil
}

func vhDUStoreOldBody(db *DatabaseCollectionWithUser, ctx context.Context, doc *Document, prevCurrentRev string, newRevID string, newDoc *Document, newDocHasAttachments bool) {
	vhDU.storeOld++
}

func vhDURunSyncFn(db *DatabaseCollectionWithUser, ctx context.Context, doc *Document, body Body, metaMap map[string]any, newRevId string) (*uint32, string, base.Set, channels.AccessMap, channels.AccessMap, error) {
	if vhDU.syncOut.reject {
		return nil, "", nil, nil, nil, base.HTTPErrorf(403, "rejected by sync function")
	}
	return nil, "", vhDU.syncOut.chans, vhDU.syncOut.access, vhDU.syncOut.role, nil
}

func vhDUBackupAncestorRevs(db *DatabaseCollectionWithUser, ctx context.Context, doc *Document, newDocRevID string, ch base.Set) {
	vhDU.backupCalls++
	vhDU.backupChans = ch
}

func vhDUAssignSequence(db *DatabaseContext, ctx context.Context, docSequence uint64, doc *Document, unusedSequences []uint64) ([]uint64, error) {
	vhDU.assignCalls++
	doc.Sequence = doc.Sequence + 1
	return unusedSequences, nil
}

func vhDUUpdateHLV(db *DatabaseCollectionWithUser, ctx context.Context, d *Document, docUpdateEvent DocUpdateType, mouMatch bool, generatedVersion uint64) (*Document, error) {
	return d, nil
}

func vhDUPersistBodies(doc *Document, ctx context.Context, datastore base.DataStore) error {
	vhDU.persistCalls++
	return nil
}

func vhDURecalc(db *DatabaseCollectionWithUser, ctx context.Context, doc *Document, metaMap map[string]any, newRevID string) (base.Set, channels.AccessMap, channels.AccessMap, *uint32, string, error) {
	vhDU.recalcCalls++
	// the revived revision's own outputs: distinguishable from the new revision's
	return base.Set{"R": struct{}{}}, channels.AccessMap{"alice": base.Set{"revived": struct{}{}}}, nil, nil, "", nil
}

func vhDUAddAttachments(db *DatabaseCollectionWithUser, ctx context.Context, newAttachments updatedAttachments) error {
	vhDU.attCalls++
	if vhDU.attFail {
		return base.HTTPErrorf(500, "verif: attachment store failed")
	}
	return nil
}

var vhDUChans = [2]string{"A", "B"}

// VHarness_DocUpdate_Plumbing: one documentUpdateFunc call on a document with arbitrary current channels and grants.
func VHarness_DocUpdate_Plumbing() {
	ctx := context.Background()
	vhDU = vhDocUpdLog{}
	col := &DatabaseCollectionWithUser{DatabaseCollection: &DatabaseCollection{dbCtx: &DatabaseContext{RevsLimit: 1000}, ScopeName: base.DefaultScope, Name: base.DefaultCollection}}
	doc := NewDocument("doc")
	doc.Sequence = 5
	doc.History = RevTree{"1-a": &RevInfo{ID: "1-a"}}
	doc.SetRevTreeID("1-a")
	doc.Channels = channels.ChannelMap{}
	var oldIn [2]bool
	for i, c := range vhDUChans {
		if vNondetBool() {
			oldIn[i] = true
			doc.Channels[c] = nil
		}
	}
	oldGrant := vNondetBool()
	if oldGrant {
		doc.Access = UserAccessMap{"alice": channels.TimedSet{"news": channels.NewVbSimpleSequence(1)}}
	}
	// the sync function's verdict on the new revision
	vhDU.syncOut.reject = vNondetBool()
	vhDU.syncOut.chans = base.Set{}
	var newIn [2]bool
	for i, c := range vhDUChans {
		if vNondetBool() {
			newIn[i] = true
			vhDU.syncOut.chans[c] = struct{}{}
		}
	}
	newGrant, newRole := vNondetBool(), vNondetBool()
	vhDU.syncOut.access = channels.AccessMap{}
	vhDU.syncOut.role = channels.AccessMap{}
	if newGrant {
		vhDU.syncOut.access["alice"] = base.Set{"news": struct{}{}}
	}
	if newRole {
		vhDU.syncOut.role["alice"] = base.Set{"role:editors": struct{}{}}
	}
	// the write: a child of the current revision (wins) or a losing conflicting branch of a two-leaf document
	conflictLoser := vNondetBool()
	newRevID := "2-b"
	if conflictLoser {
		doc.History["2-z"] = &RevInfo{ID: "2-z", Parent: "1-a"}
		doc.SetRevTreeID("2-z")
		newRevID = "2-a"
	}
	// the write may upload new attachment data, and storing it may fail
	var uploads updatedAttachments
	if vNondetBool() {
		uploads = updatedAttachments{"sha1-x": updatedAttachment{body: []byte("x"), created: true, name: "att"}}
		vhDU.attFail = vNondetBool()
	}
	callback := func(d *Document) (*Document, updatedAttachments, bool, *uint32, error) {
		err := d.History.addRevision(ctx, d.ID, RevInfo{ID: newRevID, Parent: "1-a"})
		if err != nil {
			return nil, nil, false, nil, err
		}
		return &Document{ID: d.ID, RevID: newRevID}, uploads, false, nil, nil
	}
	_, gotRev, _, _, _, changedAccess, changedRoles, _, err := col.documentUpdateFunc(ctx, true, doc, true, 0, nil, callback, nil, ExistingVersion)

	if vhDU.syncOut.reject {
		vCover("rejected")
		vAssert(err != nil, "a write rejected by the sync function fails")
		vAssert(vhDU.backupCalls == 0 && vhDU.assignCalls == 0 && vhDU.persistCalls == 0, "a rejected write performs no side effect and reserves no sequence")
		vAssert(vhDU.attCalls == 0, "a write rejected by the sync function stores no attachment data")
		return
	}
	if vhDU.attFail {
		vCover("attachment-store-failed")
		vAssert(err != nil, "a write whose attachment data could not be stored fails")
		vAssert(vhDU.assignCalls == 0 && vhDU.persistCalls == 0, "a write whose attachment data could not be stored reserves no sequence and persists nothing")
		return
	}
	if uploads != nil {
		vAssert(vhDU.attCalls == 1, "uploaded attachment data is stored once for an accepted write")
	} else {
		vAssert(vhDU.attCalls == 0, "nothing is stored when the write uploads no attachment data")
	}
	vAssert(err == nil && gotRev == newRevID, "an accepted write succeeds")
	vAssert(vhDU.assignCalls == 1, "exactly one sequence is assigned per accepted write")
	vAssert(vhDU.backupCalls == 1, "the previous revision body is backed up once")
	for i, c := range vhDUChans {
		vAssert(vhDU.backupChans.Contains(c) == oldIn[i], "the backed-up old revision is stamped with the channels the document was in before this write")
	}
	if !conflictLoser {
		vCover("new-winner")
		for i, c := range vhDUChans {
			rem, ok := doc.Channels[c]
			vAssert((ok && rem == nil) == newIn[i], "the document's current channels are those the sync function assigned to the new winning revision")
		}
		_, a := doc.Access["alice"]["news"]
		_, r := doc.RoleAccess["alice"]["role:editors"]
		vAssert(a == newGrant && r == newRole, "channel grants and role grants of the new revision are stored as such")
		listedA, listedR := len(changedAccess) > 0, len(changedRoles) > 0
		vAssert(listedA == (oldGrant != newGrant), "principals whose channel grants changed are reported for invalidation")
		vAssert(listedR == newRole, "users whose role grants changed are reported for invalidation")
		vAssert(vhDU.recalcCalls == 0, "no recalculation for another revision when the new revision is current")
	} else {
		vCover("losing-branch")
		// the new revision does not become current: top-level channels and grants stay, the leaf keeps its own channels
		for i, c := range vhDUChans {
			rem, ok := doc.Channels[c]
			vAssert((ok && rem == nil) == oldIn[i], "a losing conflicting revision does not change the document's current channels")
		}
		_, a := doc.Access["alice"]["news"]
		vAssert(a == oldGrant, "a losing conflicting revision does not change the document's grants")
		if newIn[0] || newIn[1] {
			for i, c := range vhDUChans {
				vAssert(doc.History[newRevID].Channels.Contains(c) == newIn[i], "a conflicting leaf records its own channels")
			}
		}
	}
}
