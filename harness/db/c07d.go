//go:build verif

package db

import (
	"context"

	sgbucket "github.com/couchbase/sg-bucket"
	"github.com/couchbase/sync_gateway/base"
	"github.com/couchbase/sync_gateway/channels"
)

// C07 — the document write loop (updateAndReturnDoc around documentUpdateFunc, real assignSequence and allocator):
// every sequence reserved for a write ends up on the stored document (its sequence or its unused-sequence list) or is
// released, for every outcome: success, rejection by the sync function, a conflict detected on a retry, a storage
// error of the write or of the revision-body backup, and compare-and-swap retries on a document that meanwhile got a
// higher sequence from another writer.

type vhWPStore struct {
	base.DataStore
	seq       uint64 // sequence of the stored document
	attempts  int
	retries   int
	pending   *Document
	alloc     *sequenceAllocator
	seqStore  *vhSeqStore
	assigned0 uint64
	committed bool
}

var vhWP *vhWPStore

func vhWPReleased(st *vhSeqStore) uint64 {
	var n uint64
	for _, iv := range st.released {
		n += iv.hi - iv.lo + 1
	}
	return n
}

func (s *vhWPStore) WriteUpdateWithXattrs(ctx context.Context, k string, xattrs []string, exp uint32, previous *sgbucket.BucketDocument, opts *sgbucket.MutateInOptions, callback sgbucket.WriteUpdateWithXattrsFunc) (uint64, error) {
	for {
		s.attempts++
		_, err := callback([]byte("{}"), map[string][]byte{}, 7)
		if err != nil {
			return 0, err
		}
		switch vNondetRange(0, 2) {
		case 1:
			return 0, vhErrResyncStore // the write fails for good
		case 2:
			if s.retries < vParam("retries", 2) {
				s.retries++
				// compare-and-swap mismatch: another writer stored the document first, possibly with a newer sequence
				if vNondetBool() {
					// ... with a sequence at least as new as the one this attempt had been given (so that one is unusable).
					// (Kept equal to it: a larger gap sends assignSequence through nextSequenceGreaterThan, whose
					// own accounting is decided by VHarness_C07_GreaterThan.)
					vCover("sequence-made-unusable")
					s.seq = s.pending.Sequence
				}
				continue
			}
		}
		// committed: nothing is released after a successful write, so the books must balance now
		s.committed = true
		vCover("write-committed")
		if s.retries > 0 {
			vCover("write-committed-after-retry")
		}
		vAssert(s.pending.Sequence > s.seq, "the committed sequence is newer than the one it replaces")
		assigned := s.alloc.dbStats.SequenceAssignedCount.Value() - s.assigned0
		carried := 1 + uint64(len(s.pending.UnusedSequences))
		vAssert(vhIn(s.pending.Sequence, s.seqStore.released) == 0, "the sequence carried by the stored document is not also released")
		vAssert(assigned == vhWPReleased(s.seqStore)+carried, "every sequence reserved for an acknowledged write is carried by the stored document or released")
		vAssume(false) // the rest of updateAndReturnDoc (caches, events) is not part of this harness
		return 8, nil
	}
}

func vhWPUnmarshal(c *DatabaseCollection, ctx context.Context, docid string, data []byte, xattrs map[string][]byte, cas uint64, level DocumentUnmarshalLevel) (*Document, error) {
	doc := NewDocument("doc")
	doc.Sequence = vhWP.seq
	doc.History = RevTree{"1-a": &RevInfo{ID: "1-a"}}
	doc.SetRevTreeID("1-a")
	doc.Channels = channels.ChannelMap{}
	vhWP.pending = doc
	return doc, nil
}

func vhWPLeafAttachments(ctx context.Context, db *DatabaseCollectionWithUser, doc *Document, newRevID string) (map[string][]string, error) {
	return nil, nil
}

func vhWPMarshal(doc *Document) (data, syncXattr, vvXattr, mouXattr, globalXattr []byte, err error) {
	vhWP.pending = doc
	return []byte("{}"), []byte("{}"), nil, nil, nil, nil
}

func vhWPRunSyncFn(db *DatabaseCollectionWithUser, ctx context.Context, doc *Document, body Body, metaMap map[string]any, newRevId string) (*uint32, string, base.Set, channels.AccessMap, channels.AccessMap, error) {
	if vNondetBool() {
		vCover("write-rejected")
		return nil, "", nil, nil, nil, base.HTTPErrorf(403, "rejected by sync function")
	}
	return nil, "", base.SetOf("A"), nil, nil, nil
}

func vhWPPersistBodies(doc *Document, ctx context.Context, datastore base.DataStore) error {
	if vNondetBool() {
		vCover("backup-failed")
		return vhErrResyncStore
	}
	return nil
}

func vhWPMacroExpand(h *HybridLogicalVector) []sgbucket.MacroExpansionSpec { return nil }

// VHarness_C07_WritePath: one updateAndReturnDoc of a child of the current revision.
func VHarness_C07_WritePath() {
	ctx := context.Background()
	alloc, st := vhNewAllocator(false)
	vAssume(alloc.last >= 10)
	dbc := &DatabaseContext{sequences: alloc, RevsLimit: 1000}
	store := &vhWPStore{seq: 5, alloc: alloc, seqStore: st}
	store.assigned0 = alloc.dbStats.SequenceAssignedCount.Value()
	vhWP = store
	col := &DatabaseCollectionWithUser{DatabaseCollection: &DatabaseCollection{dbCtx: dbc, dataStore: store, ScopeName: base.DefaultScope, Name: base.DefaultCollection}}
	calls := 0
	callback := func(d *Document) (*Document, updatedAttachments, bool, *uint32, error) {
		calls++
		if calls > 1 && vNondetBool() {
			vCover("conflict-on-retry")
			return nil, nil, false, nil, base.HTTPErrorf(409, "Document revision conflict")
		}
		if err := d.History.addRevision(ctx, d.ID, RevInfo{ID: "2-b", Parent: "1-a"}); err != nil {
			return nil, nil, false, nil, err
		}
		return &Document{ID: d.ID, RevID: "2-b"}, nil, false, nil, nil
	}
	_, _, err := col.updateAndReturnDoc(ctx, "doc", true, nil, nil, ExistingVersion, nil, false, false, callback)
	// only failed writes come back here (a committed write ends inside the store)
	vAssert(err != nil, "harness: a committed write does not return here")
	vCover("write-failed")
	assigned := alloc.dbStats.SequenceAssignedCount.Value() - store.assigned0
	vAssert(assigned == vhWPReleased(st), "every sequence reserved for a failed write is released as unused")
}
