//go:build verif

package db

import (
	"context"
)

// C04 — revision trees stay well-formed with a deterministic, order-independent winner.

type vhRev struct {
	gen, dig byte // generation digit '1'..'9', digest character
	id       string
	parent   int // index of parent in the set, -1 = root
	deleted  bool
}

func vhRevID(gen, dig byte) string { return string([]byte{gen, '-', dig}) }

func vhNondetRev() vhRev {
	r := vhRev{gen: vNondetU8(), dig: vNondetU8(), deleted: vNondetBool(), parent: -1}
	vAssume(r.gen >= '1' && r.gen <= '9')
	vAssume((r.dig >= '0' && r.dig <= '9') || (r.dig >= 'a' && r.dig <= 'f'))
	r.id = vhRevID(r.gen, r.dig)
	return r
}

// VHarness_C04_CompareRevIDs: the revision-ID order is a total order: generation first, then digest.
func VHarness_C04_CompareRevIDs() {
	ctx := context.Background()
	a, b, c := vhNondetRev(), vhNondetRev(), vhNondetRev()
	ab, ba := compareRevIDs(ctx, a.id, b.id), compareRevIDs(ctx, b.id, a.id)
	vAssert(ab == -ba, "compareRevIDs antisymmetric")
	vAssert((ab == 0) == (a.id == b.id), "compareRevIDs is 0 exactly for equal ids")
	if a.gen != b.gen {
		vAssert((ab > 0) == (a.gen > b.gen), "generation dominates the digest")
	} else {
		vAssert((ab > 0) == (a.dig > b.dig), "equal generations are ordered by digest")
	}
	bc, ac := compareRevIDs(ctx, b.id, c.id), compareRevIDs(ctx, a.id, c.id)
	if ab > 0 && bc > 0 {
		vAssert(ac > 0, "compareRevIDs transitive")
	}
}

// VHarness_C04_CompareLongDigests: revision ids pushed by clients may carry any digest text (including '-'): two ids
// of the same generation compare equal only if they are the same id, and the order is the byte order of the digests.
func VHarness_C04_CompareLongDigests() {
	ctx := context.Background()
	g := vNondetU8()
	vAssume(g >= '1' && g <= '9')
	mk := func() (string, [3]byte) {
		var d [3]byte
		for i := range d {
			d[i] = vNondetU8()
			vAssume(d[i] == '-' || (d[i] >= '0' && d[i] <= '9') || (d[i] >= 'a' && d[i] <= 'z'))
		}
		return string([]byte{g, '-', d[0], d[1], d[2]}), d
	}
	a, da := mk()
	b, db := mk()
	ab, ba := compareRevIDs(ctx, a, b), compareRevIDs(ctx, b, a)
	vAssert(ab == -ba, "compareRevIDs antisymmetric on long digests")
	vAssert((ab == 0) == (a == b), "two different revision ids never compare equal (the winner does not depend on iteration order)")
	less := da[0] < db[0] || (da[0] == db[0] && (da[1] < db[1] || (da[1] == db[1] && da[2] < db[2])))
	if a != b {
		vAssert((ab < 0) == less, "equal generations are ordered by the whole digest")
	}
}

// vhRevSet builds a symbolic set of n revisions with a legal ancestry (each parent precedes its child
// in index order and has a lower generation; ids pairwise distinct).
func vhRevSet(n int) []vhRev {
	revs := make([]vhRev, n)
	// digests: a concrete permutation of distinct characters (chosen per path), so that ids are distinct by
	// construction and map operations on them do not fork; generations and tombstone flags stay symbolic.
	digs := []byte("3a7e1c")
	used := make([]bool, len(digs))
	for i := 0; i < n; i++ {
		d := i
		if vParam("digperm", 1) == 1 {
			d = vNondetRange(0, n-1)
		} else if vParam("digperm", 1) == 2 {
			d = n - 1 - i
		}
		vAssume(!used[d])
		used[d] = true
		r := vhRev{gen: vNondetU8(), dig: digs[d], deleted: vNondetBool(), parent: -1}
		vAssume(r.gen >= '1' && r.gen <= '9')
		r.id = vhRevID(r.gen, r.dig)
		revs[i] = r
		if i > 0 {
			revs[i].parent = vNondetRange(-1, i-1)
		}
		if p := revs[i].parent; p >= 0 {
			vAssume(revs[i].gen > revs[p].gen)
		}
	}
	return revs
}

func vhParentID(revs []vhRev, i int) string {
	if revs[i].parent < 0 {
		return ""
	}
	return revs[revs[i].parent].id
}

func vhInsertAll(revs []vhRev, order []int) RevTree {
	t := RevTree{}
	for _, i := range order {
		err := t.addRevision(context.Background(), "doc", RevInfo{ID: revs[i].id, Parent: vhParentID(revs, i), Deleted: revs[i].deleted})
		vAssert(err == nil, "addRevision accepts a revision whose parent is present and of lower generation")
	}
	return t
}

// vhSpecWinner: the leaf maximising (not deleted, generation, digest); returns its generation and digest characters.
func vhSpecWinner(revs []vhRev) (wgen, wdig byte, leaves int, active int) {
	have := false
	wdel := false
	for i := range revs {
		isLeaf := true
		for j := range revs {
			if revs[j].parent == i {
				isLeaf = false
			}
		}
		if !isLeaf {
			continue
		}
		leaves++
		r := revs[i]
		if !r.deleted {
			active++
		}
		better := !have
		if have {
			if r.deleted != wdel {
				better = !r.deleted
			} else if r.gen != wgen {
				better = r.gen > wgen
			} else {
				better = r.dig > wdig
			}
		}
		if better {
			wgen, wdig, wdel, have = r.gen, r.dig, r.deleted, true
		}
	}
	return
}

// VHarness_C04_InsertOrder: inserting the same revisions in two ancestry-respecting orders yields the same tree.
func VHarness_C04_InsertOrder() {
	n := vParam("revs", 3)
	revs := vhRevSet(n)
	orderA := make([]int, n)
	for i := range orderA {
		orderA[i] = i
	}
	// second order: a permutation that keeps every parent before its child
	orderB := make([]int, 0, n)
	used := make([]bool, n)
	for k := 0; k < n; k++ {
		c := vNondetRange(0, n-1)
		vAssume(!used[c])
		if p := revs[c].parent; p >= 0 {
			vAssume(used[p])
		}
		used[c] = true
		orderB = append(orderB, c)
	}
	ta := vhInsertAll(revs, orderA)
	tb := vhInsertAll(revs, orderB)
	vAssert(len(ta) == n && len(tb) == n, "every revision is recorded exactly once")
	for i := range revs {
		ia, oka := ta[revs[i].id]
		ib, okb := tb[revs[i].id]
		vAssert(oka && okb, "revision present in both trees")
		if oka && okb {
			vAssert(ia.Parent == ib.Parent && ia.Parent == vhParentID(revs, i), "parent link independent of insertion order")
			vAssert(ia.Deleted == ib.Deleted && ia.Deleted == revs[i].deleted, "tombstone flag independent of insertion order")
		}
	}
}

// VHarness_C04_Winner: the winner of a tree depends only on its content: for every map iteration order it is
// the leaf maximising (not deleted, generation, digest); branched / conflict flags count the leaves.
func VHarness_C04_Winner() {
	n := vParam("revs", 3)
	revs := vhRevSet(n)
	order := make([]int, n)
	for i := range order {
		order[i] = i
	}
	t := vhInsertAll(revs, order)
	vMapOrder(3)
	w, branched, conflict := t.winningRevision(context.Background())
	vMapOrder(0)
	sg, sd, leaves, active := vhSpecWinner(revs)
	vAssert(w == vhRevID(sg, sd), "winner is the leaf maximising (not deleted, generation, digest)")
	vAssert(branched == (leaves > 1), "branched iff more than one leaf")
	vAssert(conflict == (active > 1), "in conflict iff more than one non-deleted leaf")
	for i := range revs {
		isLeaf := true
		for j := range revs {
			if revs[j].parent == i {
				isLeaf = false
			}
		}
		vAssert(t.isLeaf(revs[i].id) == isLeaf, "isLeaf agrees with the ancestry")
	}
}

// VHarness_C04_AddRejects: addRevision refuses duplicates, missing parents and non-increasing generations,
// and leaves the tree untouched when it refuses.
func VHarness_C04_AddRejects() {
	revs := vhRevSet(2)
	t := vhInsertAll(revs, []int{0, 1})
	x := vhNondetRev()
	parentChoice := vNondetRange(-1, 2) // -1 root, 0/1 existing, 2 unknown parent
	parent := ""
	switch parentChoice {
	case 0, 1:
		parent = revs[parentChoice].id
	case 2:
		u := vhNondetRev()
		vAssume(u.id != revs[0].id && u.id != revs[1].id)
		parent = u.id
	}
	err := t.addRevision(context.Background(), "doc", RevInfo{ID: x.id, Parent: parent})
	dup := x.id == revs[0].id || x.id == revs[1].id
	bad := dup || parentChoice == 2 || (parentChoice >= 0 && parentChoice <= 1 && x.gen <= revs[parentChoice].gen)
	if bad {
		vAssert(err != nil, "addRevision rejects duplicate ids, unknown parents and non-increasing generations")
		vAssert(len(t) == 2, "a rejected revision leaves the tree unchanged")
	} else {
		vAssert(err == nil, "addRevision accepts a well-formed child")
		vAssert(len(t) == 3 && t[x.id].Parent == parent, "accepted revision recorded under its parent")
	}
}

// VHarness_C04_Prune: pruneRevisions keeps a well-formed forest: no dangling parent links, every live
// (non-tombstoned) leaf survives as a leaf, the count returned equals the number of removed revisions, and
// nothing deeper than maxDepth below its nearest leaf survives.
func VHarness_C04_Prune() {
	n := vParam("revs", 4)
	revs := vhRevSet(n)
	order := make([]int, n)
	for i := range order {
		order[i] = i
	}
	t := vhInsertAll(revs, order)
	maxDepth := uint32(vNondetRange(1, 3))
	// reference: distance of every revision to its nearest leaf (leaf = 1)
	depth := make([]int, n)
	isLeaf := make([]bool, n)
	for i := range revs {
		isLeaf[i] = true
		for j := range revs {
			if revs[j].parent == i {
				isLeaf[i] = false
			}
		}
	}
	for i := n - 1; i >= 0; i-- {
		if isLeaf[i] {
			depth[i] = 1
			continue
		}
		best := 1 << 20
		for j := range revs {
			if revs[j].parent == i && depth[j]+1 < best {
				best = depth[j] + 1
			}
		}
		depth[i] = best
	}
	before := len(t)
	pruned, _ := t.pruneRevisions(context.Background(), maxDepth, "")
	vAssert(pruned == before-len(t), "pruneRevisions reports the number of removed revisions")
	for _, info := range t {
		if info.Parent != "" {
			_, ok := t[info.Parent]
			vAssert(ok, "no dangling parent link after pruning")
		}
	}
	for i := range revs {
		info, present := t[revs[i].id]
		if isLeaf[i] && !revs[i].deleted {
			vAssert(present, "a live leaf survives pruning")
			if present {
				vAssert(t.isLeaf(revs[i].id), "a live leaf is still a leaf after pruning")
			}
		}
		if present && before > int(maxDepth) {
			vAssert(depth[i] <= int(maxDepth), "nothing deeper than maxDepth below its nearest leaf survives")
			vAssert(info.Deleted == revs[i].deleted, "pruning does not change tombstone flags")
			if info.Parent != "" {
				vAssert(info.Parent == vhParentID(revs, i), "pruning only removes or clears parent links, never rewires them")
			}
		}
	}
	if pruned > 0 {
		vCover("pruned-something")
	}
}
