//go:build verif

package db

import (
	"context"
	"github.com/couchbase/sync_gateway/channels"
	"sync"

	"github.com/couchbase/sync_gateway/auth"
	"github.com/couchbase/sync_gateway/base"
)

// C02 (request side) — when the gate denies, nothing of the revision but id/rev/history/deleted/cv leaves;
// when it allows, the revision is returned unchanged.

type vhGateUser struct {
	auth.User
	allow bool
	calls int
	asked base.Set
}

func (u *vhGateUser) AuthorizeAnyCollectionChannel(scope, collection string, channels base.Set) error {
	u.calls++
	u.asked = channels
	if u.allow {
		return nil
	}
	return ErrForbidden
}

func vhSameBytesC02(a []byte, s string) bool {
	if len(a) != len(s) {
		return false
	}
	for i := range a {
		if a[i] != s[i] {
			return false
		}
	}
	return true
}

func VHarness_C02_RevisionForRequest() {
	u := &vhGateUser{allow: vNondetBool()}
	dbc := &DatabaseContext{}
	if vNondetBool() {
		dbc.Options.UnsupportedOptions = &UnsupportedOptions{ForceAPIForbiddenErrors: true}
	}
	col := &DatabaseCollectionWithUser{
		DatabaseCollection: &DatabaseCollection{dbCtx: dbc, ScopeName: base.DefaultScope, Name: base.DefaultCollection,
			collectionStats: &base.CollectionStats{NumDocReads: &base.SgwIntStat{}, DocReadsBytes: &base.SgwIntStat{}}},
		user: u,
	}
	secret := vNondetBytes(3) // the revision body: arbitrary content
	chans := base.Set{"A": struct{}{}}
	cv := Version{SourceID: "S", Value: 7}
	rev := DocumentRevision{DocID: "doc", RevID: "1-a", BodyBytes: secret, Channels: chans, CV: &cv,
		Attachments: AttachmentsMeta{"att": map[string]any{"digest": "sha1-x"}},
		Deleted:     vNondetBool(), Removed: vNondetBool()}
	requested := ""
	switch vNondetRange(0, 2) {
	case 1:
		requested = "1-a"
	case 2:
		requested = "7@S"
	}
	out, err := col.documentRevisionForRequest(context.Background(), "doc", rev, requested, 0, nil)
	vAssert(u.calls == 1, "the channel gate is consulted exactly once")
	vAssert(len(u.asked) == 1, "the gate is asked about the revision's own channels")
	if !u.allow {
		vCover("denied")
		if err == nil {
			isStub := vhSameBytesC02(out.BodyBytes, base.EmptyDocument) || vhSameBytesC02(out.BodyBytes, RemovedRedactedDocument)
			vAssert(isStub, "a denied request never receives the revision body")
			vAssert(out.Channels == nil && out.Attachments == nil, "a denied request receives neither channels nor attachments")
			vAssert(out.DocID == "doc" && out.RevID == "1-a" && out.Deleted == rev.Deleted, "the redacted stub carries only id, rev and the deleted flag")
			vAssert(out.Expiry == nil && out.Delta == nil && out.HlvHistory == "", "the redacted stub carries nothing else")
		} else {
			vAssert(out.BodyBytes == nil, "an error result carries no body")
		}
		if requested == "" || (dbc.Options.UnsupportedOptions != nil) {
			vAssert(err != nil, "a denied request for the current revision is an error")
		}
	} else {
		vCover("allowed")
		if !rev.Removed && !(rev.Deleted && requested == "") {
			vAssert(err == nil, "an authorised request succeeds")
			vAssert(len(out.BodyBytes) == 3 && out.BodyBytes[0] == secret[0] && out.BodyBytes[1] == secret[1] && out.BodyBytes[2] == secret[2], "an authorised request receives the revision unchanged")
		} else {
			vAssert(err != nil, "removed revisions and deleted current revisions are reported as missing/deleted")
		}
	}
}

// VHarness_C02_AllowList: the per-connection attachment allow-list. A (document, digest) pair is downloadable exactly
// while at least one revision that references it is being sent on this connection: histories of "start sending a
// revision" / "revision acknowledged" over revisions that share digests, under both key schemes.
func VHarness_C02_AllowList() {
	type rev struct {
		doc  string
		atts []AttachmentStorageMeta
	}
	x := AttachmentStorageMeta{digest: "sha1-xxxxxxxxxxxxxxxxxxxxxxxxxxx=", version: 2, name: "x"}
	y := AttachmentStorageMeta{digest: "sha1-yyyyyyyyyyyyyyyyyyyyyyyyyyy=", version: 2, name: "y"}
	revs := []rev{{"d1", []AttachmentStorageMeta{x}}, {"d1", []AttachmentStorageMeta{x, y}}, {"d2", []AttachmentStorageMeta{x}}}
	proto := CBMobileReplicationV2
	if vNondetBool() {
		proto = CBMobileReplicationV3
	}
	bsc := &BlipSyncContext{loggingCtx: context.Background()}
	var inflight [3]int
	k := vParam("ops", 4)
	for op := 0; op < k; op++ {
		r := vNondetRange(0, 2)
		if vNondetBool() {
			bsc.addAllowedAttachments(revs[r].doc, "1-a", revs[r].atts, proto)
			inflight[r]++
		} else {
			vAssume(inflight[r] > 0)
			bsc.removeAllowedAttachments(revs[r].doc, revs[r].atts, proto)
			inflight[r]--
		}
		total := 0
		for _, doc := range []string{"d1", "d2"} {
			for _, a := range []AttachmentStorageMeta{x, y} {
				want := 0
				for i, rv := range revs {
					for _, ra := range rv.atts {
						if ra.digest == a.digest && (rv.doc == doc || proto < CBMobileReplicationV3) {
							want += inflight[i]
						}
					}
				}
				got := bsc.allowedAttachment(allowedAttachmentKey(doc, a.digest, proto))
				vAssert((got.counter > 0) == (want > 0), "an attachment is downloadable exactly while a revision referencing it is in flight")
				vAssert(got.counter == want, "the allow-list counts the in-flight revisions that reference the attachment")
				total += want
			}
		}
		if total == 0 {
			vCover("allow-list-empty")
			vAssert(len(bsc.allowedAttachments) == 0, "nothing stays downloadable after every revision has been acknowledged")
		}
	}
}

// ---- which principal documents an open connection watches

type vhRoleUser struct {
	auth.User
	name  string
	roles channels.TimedSet
}

func (u *vhRoleUser) Name() string                 { return u.name }
func (u *vhRoleUser) RoleNames() channels.TimedSet { return u.roles }

var vhWatchRoles = [3]string{"r1", "r2", "r3"}

func vhRoleSet() (channels.TimedSet, [3]bool) {
	var has [3]bool
	ts := channels.TimedSet{}
	for i, r := range vhWatchRoles {
		if vNondetBool() {
			has[i] = true
			ts[r] = channels.NewVbSimpleSequence(1)
		}
	}
	return ts, has
}

// VHarness_C02_WatchedPrincipalKeys: a long-lived connection (continuous changes feed, BLIP) re-reads its user when a
// watched principal document changes; after RefreshUserKeys the connection watches exactly the user's document and
// the documents of the roles the user has now - whatever roles it had before (added, removed, swapped one for one).
func VHarness_C02_WatchedPrincipalKeys() {
	metaKeys := base.DefaultMetadataKeys
	listener := &changeListener{tapNotifier: sync.NewCond(&sync.Mutex{}), keyCounts: map[channels.ID]uint64{}, metaKeys: metaKeys}
	oldRoles, _ := vhRoleSet()
	newRoles, newHas := vhRoleSet()
	waiter := listener.NewWaiterWithChannels(channels.Set{}, &vhRoleUser{name: "alice", roles: oldRoles}, false)
	vMapOrder(1)
	waiter.RefreshUserKeys(&vhRoleUser{name: "alice", roles: newRoles}, metaKeys)
	vMapOrder(0)
	userKey := channels.NewID(metaKeys.UserKey("alice"), principalDocCollectionIDForChannelID)
	seenUser := false
	var seenRole [3]bool
	for _, k := range waiter.userKeys {
		matched := false
		if k == userKey {
			seenUser, matched = true, true
		}
		for i, r := range vhWatchRoles {
			if k == channels.NewID(metaKeys.RoleKey(r), principalDocCollectionIDForChannelID) {
				seenRole[i], matched = true, true
			}
		}
		vAssert(matched, "only the user's and roles' documents are watched")
	}
	vAssert(seenUser, "the user's own document is watched")
	for i := range vhWatchRoles {
		if newHas[i] {
			vCover("role-watched")
			vAssert(seenRole[i], "the document of every role the user has now is watched (a change of its channels reaches the connection)")
		} else {
			vAssert(!seenRole[i], "a role the user no longer has is not watched")
		}
	}
}
