//go:build verif

package db

import (
	"context"

	"github.com/couchbase/sync_gateway/auth"
	"github.com/couchbase/sync_gateway/base"
	"github.com/couchbase/sync_gateway/channels"
)

// C01 — the multi-channel changes feed of a one-shot request: the real SimpleMultiChangesFeed and the per-channel
// changesFeed (their goroutines run to completion at the go statement, engine option eager_go) over harness channel
// caches answering from the ground truth: three documents at symbolic ascending sequences, each a member of, absent from
// or removed at that sequence from channels A and B. Requester: the administrator or a user holding a subset of {A, B};
// symbolic since position, request limit, query page size, cached high sequence and oldest skipped sequence.

type vhMFDoc struct {
	id    string
	seq   uint64
	state [2]int // per channel: 0 absent, 1 member, 2 left the channel at this sequence (removal entry)
}

type vhMFWorld struct {
	docs       []*vhMFDoc
	high       uint64
	oldestSkip uint64
	queries    int
}

var vhMF *vhMFWorld

var vhMFChans = [2]string{"A", "B"}

type vhMFStore struct{ base.DataStore }

func (s *vhMFStore) GetCollectionID() uint32 { return base.DefaultCollectionID }

type vhMFCache struct{ ChannelCache }

func (c *vhMFCache) GetHighCacheSequence() uint64 { return vhMF.high }

func (c *vhMFCache) getSingleChannelCache(ctx context.Context, ch channels.ID) (SingleChannelCache, error) {
	for i, n := range vhMFChans {
		if n == ch.Name {
			return &vhMFSingle{id: ch, idx: i}, nil
		}
	}
	vFail("harness: feed for a channel that was not requested")
	return nil, nil
}

type vhMFSingle struct {
	SingleChannelCache
	id  channels.ID
	idx int
}

func (s *vhMFSingle) ChannelID() channels.ID { return s.id }

// GetChanges: the channel cache's contract (C01's single-channel check establishes it): the channel's entries after the
// since position, ascending, at most limit.
func (s *vhMFSingle) GetChanges(ctx context.Context, options ChangesOptions) ([]*LogEntry, error) {
	vhMF.queries++
	since := options.Since.SafeSequence()
	var out []*LogEntry
	for _, d := range vhMF.docs {
		st := d.state[s.idx]
		if st == 0 || d.seq <= since || (options.Limit > 0 && len(out) >= options.Limit) {
			continue
		}
		e := &LogEntry{Sequence: d.seq, DocID: d.id, RevID: "1-a"}
		if st == 2 {
			e.Flags |= channels.Removed
		}
		out = append(out, e)
	}
	return out, nil
}

func vhMFOldestSkipped(c *changeCache, ctx context.Context) uint64 { return vhMF.oldestSkip }

type vhMFUser struct {
	auth.User
	has [2]bool
	seq uint64
}

func (u *vhMFUser) Name() string     { return "alice" }
func (u *vhMFUser) Sequence() uint64 { return u.seq }
func (u *vhMFUser) FilterToAvailableCollectionChannels(scope, collection string, chans base.Set) (channels.TimedSet, []string, error) {
	out := channels.TimedSet{}
	var removed []string
	for c := range chans {
		granted := false
		for i, n := range vhMFChans {
			if n == c && u.has[i] {
				granted = true
			}
		}
		if granted {
			out[c] = channels.NewVbSimpleSequence(1) // held since the beginning: no back-fill
		} else {
			removed = append(removed, c)
		}
	}
	return out, removed, nil
}

func vhMFRun(col *DatabaseCollectionWithUser, chans base.Set, options ChangesOptions) []*ChangeEntry {
	feed, err := col.SimpleMultiChangesFeed(context.Background(), chans, options)
	vAssert(err == nil, "the changes feed starts")
	var got []*ChangeEntry
	for {
		e, ok := <-feed
		if !ok {
			break
		}
		vAssert(e != nil && e.Err == nil, "a one-shot feed over healthy caches delivers entries only")
		got = append(got, e)
	}
	return got
}

// VHarness_C01_MultiFeedMerge: merge, de-duplication and removal notices (administrator, no limit, full membership space).
func VHarness_C01_MultiFeedMerge() { vhMFBody() }

// VHarness_C01_MultiFeedPaging: users and administrator, request limits, query paging, resuming from a handed-out position.
func VHarness_C01_MultiFeedPaging() { vhMFBody() }

func vhMFBody() {
	w := &vhMFWorld{}
	vhMF = w
	ids := [...]string{"d1", "d2", "d3"}
	n := vParam("docs", 3)
	maxState := 1 + vParam("removals", 1) // without removals a document is a member of a channel or absent from it
	prev := uint64(1) // sequence 1 is the user's own
	for i := 0; i < n; i++ {
		seq := vNondetU64()
		vAssume(seq > prev && seq < 1<<62)
		prev = seq
		w.docs = append(w.docs, &vhMFDoc{id: ids[i], seq: seq, state: [2]int{vNondetRange(0, maxState), vNondetRange(0, maxState)}})
	}
	// the cached high sequence covers everything, or stops short of the newest document
	w.high = vNondetU64()
	vAssume(w.high < 1<<62 && (w.high >= prev || (n >= 2 && w.high >= w.docs[n-2].seq && w.high < prev)))
	w.oldestSkip = vNondetU64()
	vAssume(w.oldestSkip < 1<<62)
	since := vNondetU64()
	vAssume(since < 1<<62)
	limit := vNondetRange(0, vParam("maxlimit", 2))
	queryLimit := vNondetRange(vParam("minpage", 1), 2)

	dbc := &DatabaseContext{activeChannels: channels.NewActiveChannels(&base.SgwIntStat{})}
	dbc.Options.CacheOptions = &CacheOptions{}
	dbc.Options.CacheOptions.ChannelQueryLimit = queryLimit
	dbc.changeCache.channelCache = &vhMFCache{}
	col := &DatabaseCollectionWithUser{DatabaseCollection: &DatabaseCollection{dbCtx: dbc, dataStore: &vhMFStore{}, ScopeName: base.DefaultScope, Name: base.DefaultCollection}}
	// the requester and the channels asked for
	var userDoc *vhMFDoc
	visible := [2]bool{true, vNondetBool()} // channels asked for
	chans := base.Set{"A": struct{}{}}
	if visible[1] {
		chans["B"] = struct{}{}
	}
	if vParam("users", 1) == 1 && vNondetBool() {
		// the user's own document changed at a sequence of its own; it is announced on the user's feed like a document
		u := &vhMFUser{has: [2]bool{vNondetBool(), vNondetBool()}, seq: vNondetU64()}
		vAssume(u.seq >= 1 && u.seq < 1<<62)
		for _, d := range w.docs {
			vAssume(d.seq != u.seq)
		}
		userDoc = &vhMFDoc{id: "_user/alice", seq: u.seq}
		col.user = u
		for i := range visible {
			visible[i] = visible[i] && u.has[i]
		}
		vCover("feed-for-user")
	}
	options := ChangesOptions{Since: SequenceID{Seq: since}, Limit: limit, ChangesCtx: &vhLiveCtx{done: make(chan struct{})}}

	// ground truth: documents with an entry in a visible channel after since, up to the cached high sequence
	var want []*vhMFDoc
	userListed := userDoc == nil || !(userDoc.seq > since && userDoc.seq <= w.high)
	for _, d := range w.docs {
		if !userListed && userDoc.seq < d.seq {
			want = append(want, userDoc)
			userListed = true
		}
		in := false
		for i := range visible {
			if visible[i] && d.state[i] != 0 {
				in = true
			}
		}
		if in && d.seq > since && d.seq <= w.high {
			want = append(want, d)
		}
	}
	if !userListed {
		want = append(want, userDoc)
	}
	low := uint64(0)
	if w.oldestSkip > 0 {
		low = w.oldestSkip - 1
	}
	check := func(got []*ChangeEntry, want []*vhMFDoc, tag string) {
		vAssert(len(got) == len(want), tag+": exactly the changed documents of the visible channels are listed, once each")
		for i := 0; i < len(got) && i < len(want); i++ {
			d := want[i]
			vAssert(got[i].ID == d.id && got[i].Seq.Seq == d.seq, tag+": entries are in increasing sequence order")
			vAssert(got[i].Seq.LowSeq == low && got[i].Seq.TriggeredBy == 0, tag+": entries carry the stable low sequence")
			for c := range visible {
				listed := got[i].Removed.Contains(vhMFChans[c])
				vAssert(listed == (visible[c] && d.state[c] == 2), tag+": an entry lists exactly the visible channels the document left at this sequence")
			}
			member := d == userDoc
			for c := range visible {
				if visible[c] && d.state[c] == 1 {
					member = true
				}
			}
			vAssert(got[i].allRemoved == !member, tag+": a document is reported as removed from all channels only if it is in none of the requester's")
		}
	}
	first := want
	if limit > 0 && len(first) > limit {
		first = first[:limit]
		vCover("feed-limited")
	}
	got := vhMFRun(col, chans, options)
	check(got, first, "first request")
	if w.queries > 2 {
		vCover("feed-paged")
	}
	if len(got) > 0 && len(got) < len(want) {
		// resume from the last position handed out: the rest arrives, nothing twice, nothing skipped
		vCover("feed-resumed")
		options.Since = got[len(got)-1].Seq
		options.Limit = 0
		rest := vhMFRun(col, chans, options)
		check(rest, want[len(got):], "resumed request")
	}
}
