//go:build verif

package db

import (
	"context"

	"github.com/couchbase/sync_gateway/base"
)

// C18 — what a completed resync run does to principals (ResyncManagerDCP.invalidatePrincipals): whenever the run
// rewrote at least one document, the computed access of every user and role is invalidated for every collection of the
// database (so that the new function's grants reach them at their next load) - also when the run regenerated sequences;
// principals' sequences are regenerated exactly when asked for on a run over all collections.

type vhPostResync struct {
	seqUpdates  int
	invalidated int
	invalColls  int
	invalSeq    uint64
	counter     uint64
	fail        bool
}

var vhPR *vhPostResync

func vhPRInitIndex(ctx context.Context, db *DatabaseContext) error { return nil }

func vhPRUpdateSeqs(db *DatabaseContext, ctx context.Context, resyncID string) error {
	vhPR.seqUpdates++
	if vhPR.fail {
		return base.HTTPErrorf(500, "verif: principal update failed")
	}
	return nil
}

func vhPRInvalidateAll(db *DatabaseContext, ctx context.Context, collectionNames base.ScopeAndCollectionNames, endSeq uint64) error {
	vhPR.invalidated++
	vhPR.invalColls = len(collectionNames)
	vhPR.invalSeq = endSeq
	return nil
}

func vhPRGetSequence(s *sequenceAllocator, ctx context.Context) (uint64, error) { return vhPR.counter, nil }

func VHarness_C18_PostResyncInvalidation() {
	ctx := context.Background()
	w := &vhPostResync{counter: vNondetU64(), fail: vNondetBool()}
	vhPR = w
	dbc := &DatabaseContext{sequences: &sequenceAllocator{}}
	dbc.Options.UseViews = vNondetBool()
	dbc.CollectionByID = map[uint32]*DatabaseCollection{
		0: {dbCtx: dbc, ScopeName: base.DefaultScope, Name: base.DefaultCollection},
		1: {dbCtx: dbc, ScopeName: "s1", Name: "c1"},
	}
	r := &ResyncManagerDCP{db: dbc, ResyncID: "resync-1"}
	r.hasAllCollections = vNondetBool()
	changedElsewhere, changedHere := vNondetRange(0, 1), vNondetRange(0, 1)
	r.docsChangedCrossNode.Store(int64(changedElsewhere))
	r.docsChangedLocal.Store(int64(changedHere))
	regenerate := vNondetBool()
	err := r.invalidatePrincipals(ctx, dbc, regenerate)
	if regenerate && r.hasAllCollections {
		vCover("regenerate-principal-sequences")
		vAssert(w.seqUpdates == 1, "principals' sequences are regenerated when asked for on a run over all collections")
		if w.fail {
			vAssert(err != nil, "a failed principal update fails the run's completion")
			return
		}
	} else {
		vAssert(w.seqUpdates == 0, "principals' sequences are left alone otherwise")
	}
	vAssert(err == nil, "post-resync principal handling succeeds over a healthy store")
	if changedElsewhere+changedHere > 0 {
		vCover("documents-changed")
		vAssert(w.invalidated == 1 && w.invalColls == 2, "after a run that rewrote documents every principal's computed access is invalidated for every collection")
		vAssert(w.invalSeq == w.counter, "the invalidation is stamped with the current sequence")
	} else {
		vAssert(w.invalidated == 0, "a run that changed nothing invalidates nothing (running resync again changes nothing)")
	}
}
