//go:build verif

package db

import (
	"context"

	sgbucket "github.com/couchbase/sg-bucket"
	"github.com/couchbase/sync_gateway/base"
)

// C14 (reduced) — stub attachments of a REST write: the real Put (its closure runs storeAttachments /
// retrieveAncestorAttachments / getAvailableRev) on a document in conflict, naming either leaf as parent. An attachment
// the client keeps as a stub must resolve to the attachment of that name on the revision being updated - never to a
// same-named attachment of another branch.

type vhC14PutWorld struct {
	doc     *Document
	winAtts [2]bool // attachments of the winning revision 3-b (digests W*)
	lfAtts  [2]bool // attachments of the conflicting leaf 2-a (digests L*)
	newDoc  *Document
	uploads updatedAttachments
}

var vhC14P *vhC14PutWorld

var vhC14Names = [2]string{"x.txt", "y.txt"}

var vhC14Data = [2]string{"ZGF0YQ==", "bW9yZSBkYXRh"} // "data", "more data"

// vhC14Decode / vhC14Sha1 stand in for base64 decoding and the SHA-1 digest key (injective stand-ins: the digest itself is
// not the subject here).
func vhC14Decode(att any) ([]byte, error) {
	s, ok := att.(string)
	if !ok {
		return nil, base.HTTPErrorf(400, "invalid attachment data")
	}
	return []byte(s), nil
}

func vhC14Sha1(data []byte) string { return "sha1-" + string(data) }

func vhC14Digest(branch byte, i int) string {
	return "sha1-" + string([]byte{branch, byte('0' + i)})
}

func vhC14Meta(branch byte, has [2]bool) AttachmentsMeta {
	m := AttachmentsMeta{}
	for i, h := range has {
		if h {
			m[vhC14Names[i]] = map[string]any{"digest": vhC14Digest(branch, i), "ver": 2, "revpos": 2, "stub": true, "length": 4}
		}
	}
	return m
}

func vhC14PutGetRevision(c *DatabaseCollection, ctx context.Context, doc *Document, revid string) ([]byte, AttachmentsMeta, base.Set, error) {
	w := vhC14P
	switch revid {
	case "3-b":
		return []byte("{}"), vhC14Meta('W', w.winAtts), nil, nil
	case "2-a":
		return []byte("{}"), vhC14Meta('L', w.lfAtts), nil, nil
	}
	return nil, nil, nil, ErrMissing
}

func vhC14PutUpdateAndReturnDoc(db *DatabaseCollectionWithUser, ctx context.Context, docid string, allowImport bool, expiry *uint32, opts *sgbucket.MutateInOptions,
	docUpdateEvent DocUpdateType, existingDoc *sgbucket.BucketDocument, isImport bool, updateRevCache bool, callback updateAndReturnDocCallback) (*Document, string, error) {
	w := vhC14P
	newDoc, uploads, _, _, err := callback(w.doc)
	if err != nil {
		return nil, "", err
	}
	w.newDoc, w.uploads = newDoc, uploads
	return w.doc, newDoc.RevID, nil
}

// VHarness_C14_PutStubs: a Put naming the winning revision or the conflicting leaf, keeping any subset of that
// revision's attachments as stubs.
func VHarness_C14_PutStubs() {
	ctx := context.Background()
	col := vhC05Collection(true)
	w := &vhC14PutWorld{doc: NewDocument("doc"), winAtts: vhAttSubset(), lfAtts: vhAttSubset()}
	vhC14P = w
	w.doc.History = RevTree{"1-a": &RevInfo{ID: "1-a"}, "2-b": &RevInfo{ID: "2-b", Parent: "1-a"}, "3-b": &RevInfo{ID: "3-b", Parent: "2-b"},
		"2-a": &RevInfo{ID: "2-a", Parent: "1-a", HasAttachments: w.lfAtts[0] || w.lfAtts[1]}}
	w.doc.updateWinningRevAndSetDocFlags(ctx)
	vAssume(w.doc.GetRevTreeID() == "3-b")
	w.doc.SetAttachments(vhC14Meta('W', w.winAtts))
	onLeaf := vNondetBool()
	parent, branch, parentHas := "3-b", byte('W'), w.winAtts
	if onLeaf {
		parent, branch, parentHas = "2-a", byte('L'), w.lfAtts
		vCover("put-on-conflicting-leaf")
	}
	keep := vhAttSubset()
	upload := vhAttSubset()
	atts := map[string]any{}
	nUploads := 0
	for i := range keep {
		vAssume(!keep[i] || parentHas[i])
		vAssume(!(keep[i] && upload[i]))
		if keep[i] {
			// what a client sends back for an unchanged attachment: the stub it was given
			atts[vhC14Names[i]] = map[string]any{"stub": true, "digest": vhC14Digest(branch, i), "revpos": 2}
		}
		if upload[i] {
			// new or replaced content, sent inline (base64)
			atts[vhC14Names[i]] = map[string]any{"data": vhC14Data[i]}
			nUploads++
			vCover("inline-upload")
		}
	}
	body := Body{"k": "v", BodyRev: parent}
	if len(atts) > 0 {
		body[BodyAttachments] = atts
	}
	_, _, err := col.Put(ctx, "doc", body)
	vAssert(err == nil, "an update of a leaf revision that keeps attachments as stubs is accepted")
	if err != nil {
		return
	}
	vAssert(len(w.uploads) == nUploads, "exactly the attachments sent with data are stored")
	got := w.newDoc.Attachments()
	for i := range keep {
		meta, has := got[vhC14Names[i]]
		vAssert(has == (keep[i] || upload[i]), "the new revision lists exactly the attachments the client kept or sent")
		if has && upload[i] {
			raw, _ := vhC14Decode(vhC14Data[i])
			dg := vhC14Sha1(raw)
			up, stored := w.uploads[MakeAttachmentKey(AttVersion2, "doc", dg)]
			vAssert(stored && string(up.body) == string(raw) && up.name == vhC14Names[i], "uploaded data is handed to the attachment store under its digest key, byte for byte")
			m, ok := meta.(map[string]any)
			vAssert(ok, "attachment metadata is a map")
			if ok {
				d, _ := m["digest"].(string)
				l, _ := m["length"].(int)
				rp, _ := m["revpos"].(int)
				vAssert(d == dg && l == len(raw), "an uploaded attachment is advertised with the digest and length of its data")
				vAssert((onLeaf && rp == 3) || (!onLeaf && rp == 4), "an uploaded attachment is positioned at the new revision's generation")
				vAssert(m["stub"] == true && m["data"] == nil, "the stored metadata of an uploaded attachment is a stub without inline data")
			}
		}
		if has && keep[i] {
			m, ok := meta.(map[string]any)
			vAssert(ok, "attachment metadata is a map")
			if ok {
				vCover("stub-resolved")
				d, _ := m["digest"].(string)
				vAssert(d == vhC14Digest(branch, i), "a stub resolves to the attachment of the revision being updated")
				_, v := m["ver"]
				vAssert(v, "a resolved stub carries the stored attachment's version (so that its data is protected from clean-up)")
			}
		}
	}
}
