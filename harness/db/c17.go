//go:build verif

package db

import (
	"context"
	"time"

	"github.com/couchbase/sync_gateway/base"
)

// C17 — replication checkpoints never run ahead of processed changes.
//
// Inductive step on the checkpointer's lists: arbitrary expected tokens (all three forms), an arbitrary
// subset reported as processed (plus one arbitrary extra processed token), arbitrary compaction
// threshold. Ghost: U = expected tokens that are not (by value) in the processed set.

func vhNewCheckpointer(n int) (*Checkpointer, []SequenceID, []bool) {
	c := &Checkpointer{
		ctx:            context.Background(),
		expectedSeqs:   make([]SequenceID, 0, n),
		processedSeqs:  make(map[SequenceID]struct{}),
		idAndRevLookup: make(map[IDAndRev]SequenceID),
		stats: CheckpointerStats{
			ProcessedSequenceLen:            &base.SgwIntStat{},
			ProcessedSequenceLenPostCleanup: &base.SgwIntStat{},
			ExpectedSequenceLen:             &base.SgwIntStat{},
			ExpectedSequenceLenPostCleanup:  &base.SgwIntStat{},
		},
	}
	toks := make([]SequenceID, n)
	proc := make([]bool, n)
	for i := 0; i < n; i++ {
		toks[i] = vhSeqID()
		c.expectedSeqs = append(c.expectedSeqs, toks[i])
	}
	for i := 0; i < n; i++ {
		if vNondetBool() {
			c.processedSeqs[toks[i]] = struct{}{}
		}
	}
	if vNondetBool() {
		c.processedSeqs[vhSeqID()] = struct{}{} // a processed sequence that is not (yet) expected
	}
	// processed status is by value
	for i := 0; i < n; i++ {
		_, proc[i] = c.processedSeqs[toks[i]]
	}
	c.expectedSeqCompactionThreshold = vNondetRange(0, n)
	return c, toks, proc
}

func vhHasSeq(list []SequenceID, s SequenceID) bool {
	found := false
	for _, e := range list {
		if e == s {
			found = true
		}
	}
	return found
}

// VHarness_C17_UpdateLists: one _updateCheckpointLists from an arbitrary list state.
func VHarness_C17_UpdateLists() {
	n := vNondetRange(0, vParam("n", 3))
	c, toks, proc := vhNewCheckpointer(n)
	preProcessed := make(map[SequenceID]struct{})
	for k := range c.processedSeqs {
		preProcessed[k] = struct{}{}
	}
	safe := c._updateCheckpointLists()
	if safe != nil {
		vCover("safe-seq-returned")
		vAssert(vhHasSeq(toks, *safe), "checkpoint is one of the expected sequences")
		_, was := preProcessed[*safe]
		vAssert(was, "checkpointed sequence was processed")
	}
	for i := 0; i < n; i++ {
		if !proc[i] {
			u := toks[i]
			if safe != nil {
				vAssert(u != *safe, "O1: checkpoint is not an unprocessed expected sequence")
				vAssert(!u.Before(*safe), "O1: no unprocessed expected sequence lies before the checkpoint")
			}
			vAssert(vhHasSeq(c.expectedSeqs, u), "O2: an unprocessed expectation is never dropped")
			_, p := c.processedSeqs[u]
			vAssert(!p, "O2: an unprocessed expectation never becomes processed")
		}
	}
	if safe != nil {
		for _, e := range c.expectedSeqs {
			vAssert(!e.Before(*safe), "O3: everything still expected is not before the checkpoint")
		}
	}
	for k := range c.processedSeqs {
		_, was := preProcessed[k]
		vAssert(was, "O4: processed set only shrinks")
	}
	for _, e := range c.expectedSeqs {
		vAssert(vhHasSeq(toks, e), "expected list only shrinks")
	}
	// compaction must keep, for every processed expected sequence that it drops, a later processed one
	if safe == nil && n > 0 {
		vCover("no-safe-seq")
	}
}

// VHarness_C17_SafeProcessed: _calculateSafeProcessedSeq never passes an unprocessed expectation.
func VHarness_C17_SafeProcessed() {
	n := vNondetRange(0, vParam("n", 3))
	c, toks, proc := vhNewCheckpointer(n)
	c.lastCheckpointSeq = vhSeqID()
	last := c.lastCheckpointSeq
	s := c._calculateSafeProcessedSeq()
	if s != last {
		for i := 0; i < n; i++ {
			if !proc[i] {
				vAssert(toks[i] != s && !toks[i].Before(s), "safe processed seq is not past an unprocessed expectation")
			}
		}
	}
	anyProcessedFirst := false
	_ = anyProcessedFirst
}

// VHarness_C17_AddOps: the Add* operations keep every unprocessed expectation expected and unprocessed,
// and only mark what they are told.
func VHarness_C17_AddOps() {
	n := vNondetRange(0, vParam("n", 2))
	c, toks, proc := vhNewCheckpointer(n)
	op := vNondetRange(0, 3)
	x := vhSeqID()
	switch op {
	case 0:
		c.AddExpectedSeqs(x)
		vAssert(vhHasSeq(c.expectedSeqs, x), "AddExpectedSeqs records the expectation")
	case 1:
		c.AddProcessedSeq(x)
		_, p := c.processedSeqs[x]
		vAssert(p, "AddProcessedSeq marks x")
	case 2:
		c.AddAlreadyKnownSeq(x)
		_, p := c.processedSeqs[x]
		vAssert(p && vhHasSeq(c.expectedSeqs, x), "AddAlreadyKnownSeq expects and marks x")
	case 3:
		key := IDAndRev{DocID: "d", RevID: "1-a"}
		c.AddExpectedSeqIDAndRevs(map[IDAndRev]SequenceID{key: x})
		vAssert(vhHasSeq(c.expectedSeqs, x), "AddExpectedSeqIDAndRevs records the expectation")
		c.AddProcessedSeqIDAndRev(nil, key)
		_, p := c.processedSeqs[x]
		vAssert(p, "AddProcessedSeqIDAndRev resolves the sequence through the id/rev lookup")
	}
	for i := 0; i < n; i++ {
		vAssert(vhHasSeq(c.expectedSeqs, toks[i]), "Add*: expectations are kept")
		if !proc[i] && toks[i] != x {
			_, p := c.processedSeqs[toks[i]]
			vAssert(!p, "Add*: only the named sequence becomes processed")
		}
	}
}

// ---- histories of replicator notifications, with the replicator being closed at an arbitrary point

type vhCancelCtx struct{ done chan struct{} }

func (c *vhCancelCtx) Deadline() (time.Time, bool) { return time.Time{}, false }
func (c *vhCancelCtx) Done() <-chan struct{}       { return c.done }
func (c *vhCancelCtx) Err() error                  { return nil }
func (c *vhCancelCtx) Value(key any) any           { return nil }

type vhTold struct {
	seq  SequenceID
	key  IDAndRev
	done bool // already known to the peer, or its revision was acknowledged
	want bool // the revision was requested / sent and an acknowledgement is awaited
}

// VHarness_C17_History: the notifications a push or pull replication delivers to its checkpointer - batches of
// announced changes in feed order (each either already known or requested), acknowledgements of requested revisions,
// checkpoints - with the replicator's context cancelled at an arbitrary point (notifications keep arriving until the
// connection is torn down, and a final checkpoint is taken after the cancellation). Whatever the checkpointer computes as
// the position to persist never lies at or beyond a change that was announced and is neither known nor acknowledged.
func VHarness_C17_History() {
	ctx := &vhCancelCtx{done: make(chan struct{})}
	c := &Checkpointer{
		ctx:            ctx,
		processedSeqs:  make(map[SequenceID]struct{}),
		idAndRevLookup: make(map[IDAndRev]SequenceID),
		stats: CheckpointerStats{
			ProcessedSequenceLen:            &base.SgwIntStat{},
			ProcessedSequenceLenPostCleanup: &base.SgwIntStat{},
			ExpectedSequenceLen:             &base.SgwIntStat{},
			ExpectedSequenceLenPostCleanup:  &base.SgwIntStat{},
		},
	}
	c.expectedSeqCompactionThreshold = vNondetRange(0, 2)
	pull := vNondetBool()
	base0 := vNondetU64()
	vAssume(base0 >= 1 && base0 < 1<<62)
	var told []*vhTold
	next := uint64(0)
	cancelled := false
	var last *SequenceID
	docIDs := "abcdefghijklmnop"
	checkpoint := func(tag string) {
		safe := c._updateCheckpointLists()
		if safe == nil {
			return
		}
		vCover("history-checkpoint")
		for _, t := range told {
			if !t.done {
				vAssert(safe.Before(t.seq), tag+": the checkpoint lies before every announced change that is neither known nor acknowledged")
			}
		}
		if last != nil {
			vAssert(!safe.Before(*last), tag+": checkpoints do not move backwards")
		}
		s := *safe
		last = &s
	}
	k := vParam("events", 3)
	for ev := 0; ev < k; ev++ {
		switch vNondetRange(0, 3) {
		case 0: // a batch of two announced changes, in feed order
			var known []SequenceID
			var wanted []SequenceID
			wantedMap := map[IDAndRev]SequenceID{}
			for j := 0; j < 2; j++ {
				t := &vhTold{seq: SequenceID{Seq: base0 + next}, key: IDAndRev{DocID: docIDs[next : next+1], RevID: "1-a"}}
				next++
				if vNondetBool() {
					t.done = true
					known = append(known, t.seq)
				} else {
					t.want = true
					wanted = append(wanted, t.seq)
					wantedMap[t.key] = t.seq
				}
				told = append(told, t)
			}
			if pull {
				c.AddExpectedSeqIDAndRevs(wantedMap)
				c.AddAlreadyKnownSeq(known...)
			} else {
				c.AddAlreadyKnownSeq(known...)
				c.AddExpectedSeqs(wanted...)
			}
		case 1: // a requested revision is acknowledged
			if len(told) == 0 {
				vAssume(false)
			}
			i := vNondetRange(0, len(told)-1)
			t := told[i]
			vAssume(t.want && !t.done)
			t.done = true
			if pull {
				c.AddProcessedSeqIDAndRev(nil, t.key)
			} else {
				c.AddProcessedSeq(t.seq)
			}
		case 2: // the replicator is closed
			vAssume(!cancelled)
			cancelled = true
			close(ctx.done)
			vCover("history-cancelled")
		case 3:
			checkpoint("checkpoint")
		}
	}
	checkpoint("final checkpoint")
}
