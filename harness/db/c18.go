//go:build verif

package db

import (
	"context"

	"github.com/couchbase/sync_gateway/base"
	"github.com/couchbase/sync_gateway/channels"
)

// C18 — resync equals evaluating the new sync function from scratch (per-document kernel).

var vhC18Chans = [2]string{"A", "B"}

// vhNondetOldDoc: a document with arbitrary stored channel state (current / removed / never) and grants.
func vhNondetOldDoc() *Document {
	doc := NewDocument("doc")
	doc.Sequence = vNondetU64()
	vAssume(doc.Sequence >= 2)
	doc.SetRevTreeID("2-b")
	if vNondetBool() {
		doc.Channels = channels.ChannelMap{}
		for _, c := range vhC18Chans {
			switch vNondetRange(0, 2) {
			case 1:
				doc.Channels[c] = nil // currently in the channel
				doc.ChannelSet = append(doc.ChannelSet, ChannelSetEntry{Name: c, Start: 1})
			case 2:
				doc.Channels[c] = &channels.ChannelRemoval{Seq: 1, Rev: channels.RevAndVersion{RevTreeID: "1-a"}}
				doc.ChannelSet = append(doc.ChannelSet, ChannelSetEntry{Name: c, Start: 1, End: 1})
			}
		}
	}
	for i, p := range vhPrincipals {
		_ = i
		if vNondetBool() {
			if doc.Access == nil {
				doc.Access = UserAccessMap{}
			}
			doc.Access[p] = channels.TimedSet{"A": channels.NewVbSimpleSequence(1)}
		}
	}
	return doc
}

// vhNondetOldDocSmall: as vhNondetOldDoc with one channel state per channel and a single possible grant.
func vhNondetOldDocSmall() *Document {
	doc := NewDocument("doc")
	doc.Sequence = vNondetU64()
	vAssume(doc.Sequence >= 2)
	doc.SetRevTreeID("2-b")
	doc.Channels = channels.ChannelMap{}
	for _, c := range vhC18Chans {
		if vNondetBool() {
			doc.Channels[c] = nil
			doc.ChannelSet = append(doc.ChannelSet, ChannelSetEntry{Name: c, Start: 1})
		}
	}
	if vNondetBool() {
		doc.Access = UserAccessMap{vhPrincipals[0]: channels.TimedSet{"A": channels.NewVbSimpleSequence(1)}}
	}
	return doc
}

func vhNondetSet() base.Set {
	s := base.Set{}
	for _, c := range vhC18Chans {
		if vNondetBool() {
			s[c] = struct{}{}
		}
	}
	return s
}

func vhNondetAccess() channels.AccessMap {
	m := channels.AccessMap{}
	for _, p := range vhPrincipals {
		if vNondetBool() {
			m[p] = vhNondetSet()
		}
	}
	return m
}

func vhCurrentChannels(doc *Document) [2]bool {
	var r [2]bool
	for i, c := range vhC18Chans {
		rem, ok := doc.Channels[c]
		r[i] = ok && rem == nil
	}
	return r
}

// VHarness_C18_FromScratch: applying the new function's output to a document with arbitrary old state
// yields the same current channels and grants as applying it to a fresh document; applying it again changes nothing.
func VHarness_C18_FromScratch() {
	ctx := context.Background()
	old := vhNondetOldDoc()
	fresh := NewDocument("doc")
	fresh.Sequence = old.Sequence
	fresh.SetRevTreeID("2-b")
	newChans := vhNondetSet()
	newAccess := vhNondetAccess()

	_, err := old.updateChannels(ctx, newChans)
	vAssert(err == nil, "updateChannels succeeds")
	old.Access.updateAccess(ctx, old, newAccess)
	_, err = fresh.updateChannels(ctx, newChans)
	vAssert(err == nil, "updateChannels succeeds on a fresh document")
	fresh.Access.updateAccess(ctx, fresh, newAccess)

	vAssert(vhCurrentChannels(old) == vhCurrentChannels(fresh), "current channels after resync equal those of a from-scratch evaluation")
	for i, c := range vhC18Chans {
		vAssert(vhCurrentChannels(old)[i] == newChans.Contains(c), "current channels are exactly the new function's output")
	}
	for _, p := range vhPrincipals {
		for _, c := range vhC18Chans {
			_, a := old.Access[p][c]
			_, b := fresh.Access[p][c]
			vAssert(a == b, "grants after resync equal those of a from-scratch evaluation")
		}
	}
	// idempotence
	changed2, _ := old.updateChannels(ctx, newChans)
	users2 := old.Access.updateAccess(ctx, old, newAccess)
	vAssert(len(changed2) == 0 && len(users2) == 0, "running the same evaluation again changes nothing")
}

// ---- tier C: getResyncedDocument with the sync function as an arbitrary function of the leaf

type vhSyncOut struct {
	chans  base.Set
	access channels.AccessMap
	roles  channels.AccessMap
	reject bool
}

var vhSyncOutputs map[string]vhSyncOut

func vhStubGet1xRevFromDoc(db *DatabaseCollectionWithUser, ctx context.Context, doc *Document, revid string, listRevisions bool) ([]byte, bool, error) {
	return []byte("{}"), false, nil
}

func vhStubBodyUnmarshal(b *Body, data []byte) error {
	*b = Body{}
	return nil
}

func vhStubGetMetaMap(doc *Document, userXattrKey string) (map[string]any, error) {
	return map[string]any{}, nil
}

func vhStubGetChannelsAndAccess(col *DatabaseCollectionWithUser, ctx context.Context, doc *Document, body Body, metaMap map[string]any, revID string) (base.Set, channels.AccessMap, channels.AccessMap, *uint32, string, error) {
	o := vhSyncOutputs[revID]
	if o.reject {
		// as the real function: what the sync function computed before rejecting comes back together with the rejection
		return o.chans, o.access, o.roles, nil, "", base.HTTPErrorf(403, "rejected by sync function")
	}
	return o.chans, o.access, o.roles, nil, "", nil
}

// VHarness_C18_ResyncDoc: getResyncedDocument on a document with a winning and a conflicting leaf.
func VHarness_C18_ResyncDoc() {
	ctx := context.Background()
	doc := vhNondetOldDocSmall()
	doc.History = RevTree{
		"1-a": &RevInfo{ID: "1-a"},
		"2-b": &RevInfo{ID: "2-b", Parent: "1-a"},
		"2-a": &RevInfo{ID: "2-a", Parent: "1-a", Channels: vhNondetSet()}, // conflicting (non-winning) leaf with stored channels
	}
	oldWin := vhCurrentChannels(doc)
	oldLoser := doc.History["2-a"].Channels
	var oldLoserIn [2]bool
	for i, c := range vhC18Chans {
		oldLoserIn[i] = oldLoser.Contains(c)
	}
	var oldGrant [2]bool
	for i, p := range vhPrincipals {
		_, oldGrant[i] = doc.Access[p]["A"]
	}
	oldRole := false
	if vNondetBool() {
		oldRole = true
		doc.RoleAccess = UserAccessMap{vhPrincipals[0]: channels.TimedSet{"r1": channels.NewVbSimpleSequence(1)}}
	}
	win := vhSyncOut{chans: vhNondetSet(), access: channels.AccessMap{}, roles: channels.AccessMap{}}
	var newGrant [2]bool
	if vNondetBool() {
		newGrant[0] = true
		win.access[vhPrincipals[0]] = base.Set{"A": struct{}{}}
	}
	newRole := false
	if vNondetBool() {
		newRole = true
		win.roles[vhPrincipals[0]] = base.Set{"r1": struct{}{}}
	}
	win.reject = vNondetBool()
	lose := vhSyncOut{chans: vhNondetSet(), reject: vNondetBool()}
	// what a database that had used the new function from the start would hold: a rejected revision is in no
	// channel and grants nothing
	if win.reject {
		vCover("resync-rejected")
		win2 := win
		win2.chans, newGrant, newRole = base.Set{}, [2]bool{}, false
		vhSyncOutputs = map[string]vhSyncOut{"2-b": win, "2-a": lose}
		win = win2
	} else {
		vhSyncOutputs = map[string]vhSyncOut{"2-b": win, "2-a": lose}
	}
	if lose.reject {
		lose.chans = base.Set{}
	}
	col := &DatabaseCollectionWithUser{DatabaseCollection: &DatabaseCollection{dbCtx: &DatabaseContext{}, ScopeName: base.DefaultScope, Name: base.DefaultCollection}}

	vMapOrder(vParam("maporder", 1))
	updated, _, err := col.getResyncedDocument(ctx, doc, false)
	vMapOrder(0)

	winnerDiffers := false
	for i, c := range vhC18Chans {
		if oldWin[i] != win.chans.Contains(c) {
			winnerDiffers = true
		}
	}
	for i := range vhPrincipals {
		if oldGrant[i] != newGrant[i] {
			winnerDiffers = true
		}
	}
	if oldRole != newRole {
		winnerDiffers = true
	}
	loserDiffers := false
	for i, c := range vhC18Chans {
		if oldLoserIn[i] != lose.chans.Contains(c) {
			loserDiffers = true
		}
	}
	if err == nil {
		vCover("resync-writes")
		vAssert(updated == doc, "the resynced document is returned for writing")
		for i, c := range vhC18Chans {
			vAssert(vhCurrentChannels(doc)[i] == win.chans.Contains(c), "winning revision: channels are the new function's output")
			vAssert(doc.History["2-a"].Channels.Contains(c) == lose.chans.Contains(c), "conflicting leaf: channels are the new function's output")
		}
		for i, p := range vhPrincipals {
			_, g := doc.Access[p]["A"]
			vAssert(g == newGrant[i], "winning revision: channel grants are those of a from-scratch evaluation")
		}
		_, r := doc.RoleAccess[vhPrincipals[0]]["r1"]
		vAssert(r == newRole, "winning revision: role grants are those of a from-scratch evaluation (a rejected revision grants nothing)")
	} else {
		vCover("resync-cancelled")
		vAssert(err == base.ErrUpdateCancel, "the only error is 'nothing to update'")
		vAssert(!winnerDiffers, "resync is cancelled although the winning revision's channels or grants differ from the new function's output")
		vAssert(!loserDiffers, "resync is cancelled although a conflicting leaf's channels differ from the new function's output")
	}
}
