//go:build verif

package db

import (
	"context"

	"github.com/couchbase/sync_gateway/base"
)

// C10 — version vectors order revisions soundly.
//
// Bounded symbolic histories over three replicas A, B, C. Every replica holds the real
// HybridLogicalVector of one document plus a ground-truth classic version vector (source -> highest
// version of that source in the replica's causal past). Version values are unconstrained symbols apart
// from the hybrid-clock contract (a source's new value exceeds every value of that source it has seen).

var vhSources = [3]string{"A", "B", "C"}

type vhReplica struct {
	hlv *HybridLogicalVector // nil: replica does not have the document yet
	vv  [3]uint64            // ground truth
}

func vhSrcIdx(s string) int {
	for i, x := range vhSources {
		if x == s {
			return i
		}
	}
	vFail("unknown source id in vector")
	return 0
}

func vhVVGeq(a, b [3]uint64) bool {
	ok := true
	for i := 0; i < 3; i++ {
		if a[i] < b[i] {
			ok = false
		}
	}
	return ok
}

func vhVVMax(a, b [3]uint64) [3]uint64 {
	var r [3]uint64
	for i := 0; i < 3; i++ {
		r[i] = a[i]
		if b[i] > r[i] {
			r[i] = b[i]
		}
	}
	return r
}

// vhCheckReplica: the vector denotes exactly the ground truth (nothing lost, invented or lowered; no source twice).
func vhCheckReplica(r *vhReplica, tag string) {
	if r.hlv == nil {
		return
	}
	h := r.hlv
	for i, s := range vhSources {
		v, found := h.GetValue(s)
		if r.vv[i] == 0 {
			vAssert(!found, tag+": vector names a source the replica never saw")
		} else {
			vAssert(found, tag+": a source in the replica's causal past is missing from its vector")
			vAssert(v == r.vv[i], tag+": vector value differs from the highest version seen for the source")
		}
		_, inPV := h.PreviousVersions[s]
		_, inMV := h.MergeVersions[s]
		vAssert(!(inPV && inMV), tag+": source in both previous and merge versions")
		vAssert(!(inPV && h.SourceID == s), tag+": current source also in previous versions")
	}
	vAssert(h.SourceID != "", tag+": vector has a current version")
}

func vhEdit(r *vhReplica, idx int) {
	v := vNondetU64()
	vAssume(v > r.vv[idx]) // hybrid logical clock: strictly above everything this source has produced
	if r.hlv == nil {
		r.hlv = NewHybridLogicalVector()
	}
	floor := r.hlv.maxValueForSource(vhSources[idx])
	vAssert(floor <= r.vv[idx], "edit: version floor does not exceed the ground truth for the source")
	vAssert(floor == r.vv[idx], "edit: the version floor is the highest version of the source the vector knows (a new version must exceed it)")
	err := r.hlv.AddVersion(Version{SourceID: vhSources[idx], Value: v})
	vAssert(err == nil, "edit: AddVersion accepts a newer version of the local source")
	r.vv[idx] = v
}

func vhPull(dst *vhReplica, dstIdx int, src *vhReplica) {
	incoming := src.hlv.Copy()
	if dst.hlv == nil {
		dst.hlv = incoming
		dst.vv = src.vv
		return
	}
	status := IsInConflict(context.Background(), dst.hlv, incoming)
	cvIdx := vhSrcIdx(incoming.SourceID)
	lcIdx := vhSrcIdx(dst.hlv.SourceID)
	switch status {
	case HLVNoConflictRevAlreadyPresent:
		vCover("pull-already-present")
		vAssert(dst.vv[cvIdx] >= incoming.Version, "already-present: the local replica really has the incoming current version")
	case HLVNoConflict:
		vCover("pull-no-conflict")
		mvResolved := len(incoming.MergeVersions) != 0 && len(dst.hlv.MergeVersions) != 0
		if !mvResolved || src.vv[lcIdx] >= dst.hlv.Version {
			vAssert(src.vv[lcIdx] >= dst.hlv.Version, "no-conflict: the incoming revision descends from the local current version")
		}
		dst.hlv.UpdateWithIncomingHLV(incoming)
		dst.vv = vhVVMax(dst.vv, src.vv)
	case HLVConflict:
		vCover("pull-conflict")
		vAssert(!(src.vv[lcIdx] >= dst.hlv.Version), "conflict reported although the incoming revision descends from the local one")
		vAssert(!(dst.vv[cvIdx] >= incoming.Version), "conflict reported although the local replica already has the incoming version")
		switch vNondetRange(0, 2) {
		case 0: // remote wins (resolveRemoteWinsHLV)
			n := dst.hlv.Copy()
			n.UpdateWithIncomingHLV(incoming)
			dst.hlv = n
			dst.vv = vhVVMax(dst.vv, src.vv)
		case 1: // local wins (resolveLocalWinsHLV)
			n := incoming.Copy()
			n.UpdateWithIncomingHLV(dst.hlv)
			dst.hlv = n
			dst.vv = vhVVMax(dst.vv, src.vv)
		case 2: // merge (resolveDocMergeHLV)
			n := dst.hlv.Copy()
			srcID := vhSources[dstIdx]
			vAssert(dst.hlv.maxValueForSource(srcID) == dst.vv[dstIdx] && incoming.maxValueForSource(srcID) == src.vv[dstIdx], "merge: each vector's version floor is the highest version of the source it knows")
			floor := max(dst.hlv.maxValueForSource(srcID), incoming.maxValueForSource(srcID))
			merged := vhVVMax(dst.vv, src.vv)
			vAssert(floor <= merged[dstIdx], "merge: version floor does not exceed the ground truth")
			v := vNondetU64()
			vAssume(v > floor && v > merged[dstIdx])
			err := n.MergeWithIncomingHLV(Version{SourceID: srcID, Value: v}, incoming)
			vAssert(err == nil, "merge: MergeWithIncomingHLV accepts the generated version")
			dst.hlv = n
			dst.vv = merged
			dst.vv[dstIdx] = v
		}
	default:
		vFail("IsInConflict returned an unknown status")
	}
}

// VHarness_C10_Histories: k events (edit at a replica / pull between two replicas with every conflict
// outcome and every resolution) from the empty state; after every event every replica's vector denotes
// exactly its causal past, and the conflict predicate agrees with causality.
func VHarness_C10_Histories() {
	vMapOrder(vParam("maporder", 2))
	k := vParam("events", 3)
	var reps [3]vhReplica
	vhEdit(&reps[0], 0) // symmetry: the document is created at A
	vhCheckReplica(&reps[0], "after create")
	for e := 1; e < k; e++ {
		if vNondetBool() {
			i := vNondetRange(0, 2)
			vhEdit(&reps[i], i)
			vhCheckReplica(&reps[i], "after edit")
		} else {
			d := vNondetRange(0, 2)
			s := vNondetRange(0, 2)
			vAssume(d != s && reps[s].hlv != nil)
			vhPull(&reps[d], d, &reps[s])
			vhCheckReplica(&reps[d], "after pull")
		}
	}
}

// ---- codecs

// VHarness_C10_CasHex: the little-endian hex CAS text round-trips for every 64-bit value.
func VHarness_C10_CasHex() {
	v := vNondetU64()
	s := base.CasToString(v)
	vAssert(len(s) == 18, "CAS text is 0x + 16 hex digits")
	vAssert(base.HexCasToUint64(s) == v, "HexCasToUint64(CasToString(v)) == v")
	d := base.Uint64ToLittleEndianHexAndStripZeros(v)
	back, err := base.HexCasToUint64ForDelta([]byte(d))
	vAssert(err == nil, "delta text decodes")
	vAssert(back == v, "HexCasToUint64ForDelta(Uint64ToLittleEndianHexAndStripZeros(v)) == v")
}

// VHarness_C10_VersionString: Version.String / ParseVersion round trip (wire form of one version).
func VHarness_C10_VersionString() {
	v := Version{SourceID: vhSources[vNondetRange(0, 2)], Value: vNondetU64()}
	vAssume(v.Value != 0)
	p, err := ParseVersion(v.String())
	vAssert(err == nil, "ParseVersion accepts Version.String output")
	vAssert(p.SourceID == v.SourceID && p.Value == v.Value, "ParseVersion(Version.String(v)) == v")
}

// VHarness_C10_Deltas: the persisted delta form of pv/mv round-trips for every map of up to n sources.
func VHarness_C10_Deltas() {
	n := vNondetRange(1, vParam("sources", 2))
	m := map[string]uint64{}
	for i := 0; i < n; i++ {
		m[vhSources[i]] = vNondetU64()
	}
	vMapOrder(3)
	list := VersionsToDeltas(m)
	vMapOrder(0)
	vAssert(len(list) == n, "one delta entry per source")
	back, err := PersistedDeltasToMap(list)
	vAssert(err == nil, "persisted deltas decode")
	vAssert(len(back) == n, "decoded map has one entry per source")
	for i := 0; i < n; i++ {
		got, ok := back[vhSources[i]]
		vAssert(ok && got == m[vhSources[i]], "PersistedDeltasToMap(VersionsToDeltas(m)) == m")
	}
}

var vhWireSources = [5]string{"A", "B", "C", "D", "E"}

// VHarness_C10_WireForm: the BLIP wire string of a vector (cv[,mv,mv];pv,pv) parses back to the same vector,
// for every map iteration order.
func VHarness_C10_WireForm() {
	h := &HybridLogicalVector{SourceID: "A", Version: vNondetU64()}
	withMV := vNondetBool()
	if withMV {
		h.MergeVersions = HLVVersions{"B": vNondetU64(), "C": vNondetU64()}
	}
	npv := vNondetRange(0, 2)
	if npv > 0 {
		h.PreviousVersions = HLVVersions{}
		for i := 0; i < npv; i++ {
			h.PreviousVersions[vhWireSources[3+i]] = vNondetU64()
		}
	}
	vMapOrder(3)
	hist := h.ToHistoryForHLV()
	vMapOrder(0)
	wire := h.GetCurrentVersionString()
	if hist != "" {
		if h.MergeVersions != nil {
			wire = wire + "," + hist
		} else {
			wire = wire + ";" + hist
		}
	}
	p, legacy, err := extractHLVFromBlipString(wire)
	vAssert(err == nil, "wire form of a valid vector parses")
	vAssert(legacy == nil, "no legacy revisions invented")
	vAssert(p.SourceID == "A" && p.Version == h.Version, "current version survives the wire form")
	vAssert(len(p.MergeVersions) == len(h.MergeVersions), "merge versions count survives")
	vAssert(len(p.PreviousVersions) == len(h.PreviousVersions), "previous versions count survives")
	for s, v := range h.MergeVersions {
		got, ok := p.MergeVersions[s]
		vAssert(ok && got == v, "merge version survives the wire form")
	}
	for s, v := range h.PreviousVersions {
		got, ok := p.PreviousVersions[s]
		vAssert(ok && got == v, "previous version survives the wire form")
	}
}
