//go:build verif

package db

import (
	"context"
)

// C10 — version vectors order revisions soundly.
//
// Bounded symbolic histories over three replicas A, B, C. Every replica holds the real
// HybridLogicalVector of one document plus a ground-truth classic version vector (source -> highest
// version of that source in the replica's causal past). Version values are unconstrained symbols apart
// from the hybrid-clock contract (a source's new value exceeds every value of that source it has seen).

var vhSources = [3]string{"A", "B", "C"}

type vhReplica struct {
	hlv *HybridLogicalVector // nil: replica does not have the document yet
	vv  [3]uint64            // ground truth
}

func vhSrcIdx(s string) int {
	for i, x := range vhSources {
		if x == s {
			return i
		}
	}
	vFail("unknown source id in vector")
	return 0
}

func vhVVGeq(a, b [3]uint64) bool {
	ok := true
	for i := 0; i < 3; i++ {
		if a[i] < b[i] {
			ok = false
		}
	}
	return ok
}

func vhVVMax(a, b [3]uint64) [3]uint64 {
	var r [3]uint64
	for i := 0; i < 3; i++ {
		r[i] = a[i]
		if b[i] > r[i] {
			r[i] = b[i]
		}
	}
	return r
}

// vhCheckReplica: the vector denotes exactly the ground truth (nothing lost, invented or lowered; no source twice).
func vhCheckReplica(r *vhReplica, tag string) {
	if r.hlv == nil {
		return
	}
	h := r.hlv
	for i, s := range vhSources {
		v, found := h.GetValue(s)
		if r.vv[i] == 0 {
			vAssert(!found, tag+": vector names a source the replica never saw")
		} else {
			vAssert(found, tag+": a source in the replica's causal past is missing from its vector")
			vAssert(v == r.vv[i], tag+": vector value differs from the highest version seen for the source")
		}
		_, inPV := h.PreviousVersions[s]
		_, inMV := h.MergeVersions[s]
		vAssert(!(inPV && inMV), tag+": source in both previous and merge versions")
		vAssert(!(inPV && h.SourceID == s), tag+": current source also in previous versions")
	}
	vAssert(h.SourceID != "", tag+": vector has a current version")
}

func vhEdit(r *vhReplica, idx int) {
	v := vNondetU64()
	vAssume(v > r.vv[idx]) // hybrid logical clock: strictly above everything this source has produced
	if r.hlv == nil {
		r.hlv = NewHybridLogicalVector()
	}
	floor := r.hlv.maxValueForSource(vhSources[idx])
	vAssert(floor <= r.vv[idx], "edit: version floor does not exceed the ground truth for the source")
	err := r.hlv.AddVersion(Version{SourceID: vhSources[idx], Value: v})
	vAssert(err == nil, "edit: AddVersion accepts a newer version of the local source")
	r.vv[idx] = v
}

func vhPull(dst *vhReplica, dstIdx int, src *vhReplica) {
	incoming := src.hlv.Copy()
	if dst.hlv == nil {
		dst.hlv = incoming
		dst.vv = src.vv
		return
	}
	status := IsInConflict(context.Background(), dst.hlv, incoming)
	cvIdx := vhSrcIdx(incoming.SourceID)
	lcIdx := vhSrcIdx(dst.hlv.SourceID)
	switch status {
	case HLVNoConflictRevAlreadyPresent:
		vCover("pull-already-present")
		vAssert(dst.vv[cvIdx] >= incoming.Version, "already-present: the local replica really has the incoming current version")
	case HLVNoConflict:
		vCover("pull-no-conflict")
		mvResolved := len(incoming.MergeVersions) != 0 && len(dst.hlv.MergeVersions) != 0
		if !mvResolved || src.vv[lcIdx] >= dst.hlv.Version {
			vAssert(src.vv[lcIdx] >= dst.hlv.Version, "no-conflict: the incoming revision descends from the local current version")
		}
		dst.hlv.UpdateWithIncomingHLV(incoming)
		dst.vv = vhVVMax(dst.vv, src.vv)
	case HLVConflict:
		vCover("pull-conflict")
		vAssert(!(src.vv[lcIdx] >= dst.hlv.Version), "conflict reported although the incoming revision descends from the local one")
		vAssert(!(dst.vv[cvIdx] >= incoming.Version), "conflict reported although the local replica already has the incoming version")
		switch vNondetRange(0, 2) {
		case 0: // remote wins (resolveRemoteWinsHLV)
			n := dst.hlv.Copy()
			n.UpdateWithIncomingHLV(incoming)
			dst.hlv = n
			dst.vv = vhVVMax(dst.vv, src.vv)
		case 1: // local wins (resolveLocalWinsHLV)
			n := incoming.Copy()
			n.UpdateWithIncomingHLV(dst.hlv)
			dst.hlv = n
			dst.vv = vhVVMax(dst.vv, src.vv)
		case 2: // merge (resolveDocMergeHLV)
			n := dst.hlv.Copy()
			srcID := vhSources[dstIdx]
			floor := max(dst.hlv.maxValueForSource(srcID), incoming.maxValueForSource(srcID))
			merged := vhVVMax(dst.vv, src.vv)
			vAssert(floor <= merged[dstIdx], "merge: version floor does not exceed the ground truth")
			v := vNondetU64()
			vAssume(v > floor && v > merged[dstIdx])
			err := n.MergeWithIncomingHLV(Version{SourceID: srcID, Value: v}, incoming)
			vAssert(err == nil, "merge: MergeWithIncomingHLV accepts the generated version")
			dst.hlv = n
			dst.vv = merged
			dst.vv[dstIdx] = v
		}
	default:
		vFail("IsInConflict returned an unknown status")
	}
}

// VHarness_C10_Histories: k events (edit at a replica / pull between two replicas with every conflict
// outcome and every resolution) from the empty state; after every event every replica's vector denotes
// exactly its causal past, and the conflict predicate agrees with causality.
func VHarness_C10_Histories() {
	vMapOrder(vParam("maporder", 2))
	k := vParam("events", 3)
	var reps [3]vhReplica
	vhEdit(&reps[0], 0) // symmetry: the document is created at A
	vhCheckReplica(&reps[0], "after create")
	for e := 1; e < k; e++ {
		if vNondetBool() {
			i := vNondetRange(0, 2)
			vhEdit(&reps[i], i)
			vhCheckReplica(&reps[i], "after edit")
		} else {
			d := vNondetRange(0, 2)
			s := vNondetRange(0, 2)
			vAssume(d != s && reps[s].hlv != nil)
			vhPull(&reps[d], d, &reps[s])
			vhCheckReplica(&reps[d], "after pull")
		}
	}
}
