//go:build verif

package db

import (
	"context"
	"time"

	"github.com/couchbase/sync_gateway/base"
	"github.com/couchbase/sync_gateway/channels"
)

// C01 — a channel's changes are exactly the visible changes, whatever the cache happens to hold.
//
// Ground truth: for each of three documents, the sequence of its latest revision in the channel (or none).
// Some revisions exist before the cache was created (only the channel query knows them); later revisions
// arrive through the feed. Sequences are N + small offsets with N symbolic. The channel query is a harness
// implementation answering from the ground truth (the contract of the channels view / N1QL query).

const vhNDocs = 3

var vhDocNames = [vhNDocs]string{"d0", "d1", "d2"}

type vhChanTruth struct {
	base    uint64
	seqOff  [vhNDocs]int // offset of the doc's latest revision in the channel, -1 = not in channel
	queries int
}

func (t *vhChanTruth) getChangesInChannelFromQuery(ctx context.Context, channelName string, startSeq, endSeq uint64, limit int, activeOnly bool) (LogEntries, error) {
	t.queries++
	out := LogEntries{}
	// ascending by sequence: offsets are small, scan them in order
	for off := 0; off < 16; off++ {
		for d := 0; d < vhNDocs; d++ {
			if t.seqOff[d] == off {
				seq := t.base + uint64(off)
				if seq >= startSeq && (endSeq == 0 || seq <= endSeq) {
					if limit > 0 && len(out) >= limit {
						return out, nil
					}
					out = append(out, &LogEntry{Sequence: seq, DocID: vhDocNames[d], RevID: "1-a"})
				}
			}
		}
	}
	return out, nil
}

func vhNewSingleCache(t *vhChanTruth, validFromOff int, maxLen int) *singleChannelCacheImpl {
	stats := &base.CacheStats{ChannelCacheHits: &base.SgwIntStat{}, ChannelCacheMisses: &base.SgwIntStat{}, ChannelCachePendingQueries: &base.SgwIntStat{},
		ChannelCacheRevsActive: &base.SgwIntStat{}, ChannelCacheRevsRemoval: &base.SgwIntStat{}, ChannelCacheRevsTombstone: &base.SgwIntStat{}}
	c := &singleChannelCacheImpl{queryHandler: t, channelID: channels.NewID("A", 0), validFrom: t.base + uint64(validFromOff),
		cachedDocIDs: map[string]struct{}{}, cacheStats: stats, logs: make(LogEntries, 0)}
	c.options = &ChannelCacheOptions{ChannelCacheMinLength: 0, ChannelCacheMaxLength: maxLen, ChannelCacheAge: 0}
	return c
}

// vhCacheWellFormed: representation invariant of the single-channel cache.
func vhCacheWellFormed(c *singleChannelCacheImpl, t *vhChanTruth, tag string) {
	vAssert(len(c.logs) <= c.options.ChannelCacheMaxLength, tag+": cache within its maximum length")
	vAssert(len(c.cachedDocIDs) == len(c.logs), tag+": one cached entry per document id")
	for i, e := range c.logs {
		if i > 0 {
			vAssert(c.logs[i-1].Sequence < e.Sequence, tag+": cached entries strictly ascending by sequence")
		}
		vAssert(e.Sequence >= c.validFrom, tag+": no cached entry below validFrom")
		_, ok := c.cachedDocIDs[e.DocID]
		vAssert(ok, tag+": cachedDocIDs covers every cached entry")
		// every cached entry is the latest revision of its document
		for d := 0; d < vhNDocs; d++ {
			if vhDocNames[d] == e.DocID {
				vAssert(t.seqOff[d] >= 0 && e.Sequence == t.base+uint64(t.seqOff[d]), tag+": a cached entry is the document's latest revision in the channel")
			}
		}
	}
	// completeness: every latest revision at or above validFrom is cached
	for d := 0; d < vhNDocs; d++ {
		if t.seqOff[d] >= 0 && t.base+uint64(t.seqOff[d]) >= c.validFrom {
			found := false
			for _, e := range c.logs {
				if e.DocID == vhDocNames[d] {
					found = true
				}
			}
			vAssert(found, tag+": nothing at or above validFrom is missing from the cache")
		}
	}
}

// vhExpectChanges: the result equals the ascending list of latest revisions with sequence > since (first `limit`).
func vhExpectChanges(got []*LogEntry, t *vhChanTruth, sinceOff int, limit int, tag string) {
	n := 0
	for off := sinceOff + 1; off < 16; off++ {
		for d := 0; d < vhNDocs; d++ {
			if t.seqOff[d] == off {
				if limit > 0 && n >= limit {
					continue
				}
				vAssert(n < len(got), tag+": a visible change is missing from the result")
				if n < len(got) {
					vAssert(got[n].DocID == vhDocNames[d] && got[n].Sequence == t.base+uint64(off), tag+": result lists the visible changes in sequence order")
				}
				n++
			}
		}
	}
	vAssert(len(got) == n, tag+": result contains nothing but the visible changes (no duplicates, no superseded revisions)")
}

// VHarness_C01_SingleChannel: history of feed deliveries and GetChanges requests against one channel cache.
func VHarness_C01_SingleChannel() {
	n := vNondetU64()
	vAssume(n >= 1 && n < 1<<62)
	t := &vhChanTruth{base: n}
	for d := range t.seqOff {
		t.seqOff[d] = -1
	}
	// revisions that exist before the cache was created: a prefix of offsets 0..pre-1 assigned to distinct docs
	pre := vNondetRange(0, 2)
	for i := 0; i < pre; i++ {
		d := vNondetRange(0, vhNDocs-1)
		vAssume(t.seqOff[d] == -1)
		t.seqOff[d] = i
	}
	cur := pre // next sequence offset
	maxLen := vNondetRange(1, vParam("maxlen", 2))
	c := vhNewSingleCache(t, cur, maxLen) // a new cache is valid from the next sequence
	k := vParam("ops", 3)
	clock := int64(1000)
	for op := 0; op < k; op++ {
		kind := vNondetRange(0, vParam("kinds", 3)-1)
		if kind == 0 {
			// feed: a new revision of some document enters (or stays in) the channel at the next sequence
			d := vNondetRange(0, vhNDocs-1)
			t.seqOff[d] = cur
			clock += 10
			c.addToCache(context.Background(), &LogEntry{Sequence: n + uint64(cur), DocID: vhDocNames[d], RevID: "2-b", TimeReceived: channels.FeedTimestamp(clock)}, false)
			cur++
			vhCacheWellFormed(c, t, "after feed")
		} else if kind == 2 {
			// purge of a document whose latest revision came through the feed: its entries received before the purge
			// started leave the cache (and the channel); an entry received after the purge started (the document was
			// written again meanwhile) stays
			d := vNondetRange(0, vhNDocs-1)
			vAssume(t.seqOff[d] >= pre) // revisions older than the cache carry no receive time in this harness
			recv := int64(0)
			for _, e := range c.logs {
				if e.DocID == vhDocNames[d] {
					recv = int64(e.TimeReceived)
				}
			}
			start := clock + 5 // purge started after everything received so far ...
			if vNondetBool() {
				start = recv - 5 // ... or before this document's cached revision arrived
				vCover("purge-resurrected")
			} else {
				t.seqOff[d] = -1
				vCover("purged")
			}
			c.Remove(context.Background(), 0, []string{vhDocNames[d]}, time.Unix(0, start))
			vhCacheWellFormed(c, t, "after purge")
		} else {
			sinceOff := vNondetRange(-1, cur-1)
			limit := vNondetRange(0, 2)
			since := SequenceID{Seq: n + uint64(sinceOff)} // offset -1 = everything (since N-1)
			opts := ChangesOptions{Since: since, Limit: limit, ChangesCtx: context.Background()}
			got, err := c.GetChanges(context.Background(), opts)
			vAssert(err == nil, "GetChanges succeeds")
			vhExpectChanges(got, t, sinceOff, limit, "GetChanges")
			vhCacheWellFormed(c, t, "after GetChanges")
			// asking again (now possibly served from the back-filled cache) gives the same answer
			again, err2 := c.GetChanges(context.Background(), opts)
			vAssert(err2 == nil, "GetChanges succeeds again")
			vhExpectChanges(again, t, sinceOff, limit, "repeated GetChanges")
			if t.queries > 0 {
				vCover("query-backfill")
			}
		}
	}
}
