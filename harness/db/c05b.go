//go:build verif

package db

import (
	"context"

	sgbucket "github.com/couchbase/sg-bucket"
	"github.com/couchbase/sync_gateway/base"
)

// C05 — the real Put (its admission logic lives in the callback it hands to updateAndReturnDoc) in conflict-free
// mode: an acknowledged write adds exactly one revision, as the only child of the revision that was current when it
// committed; a write naming anything else is refused with a conflict, also when the compare-and-swap loop re-runs
// the callback on a newer state because another writer's change was acknowledged first.
//
// updateAndReturnDoc is redirected to the harness: it runs the callback on the harness document, optionally lets
// another acknowledged write land first and re-runs it (the closure keeps its variables, as in the real retry).

type vhC05World struct {
	doc        *Document
	chain      []string // revision ids root..tip
	tipDeleted bool
	retries    int
	interfered bool
	committed  bool
	parentAt   string // tip when the callback that committed ran
	tipDelAt   bool
}

var vhC05W *vhC05World

func vhC05Append(w *vhC05World, id string, deleted bool) {
	parent := ""
	if len(w.chain) > 0 {
		parent = w.chain[len(w.chain)-1]
	}
	if w.doc.History == nil {
		w.doc.History = RevTree{}
	}
	err := w.doc.History.addRevision(context.Background(), "doc", RevInfo{ID: id, Parent: parent, Deleted: deleted})
	vAssume(err == nil)
	w.chain = append(w.chain, id)
	w.tipDeleted = deleted
	w.doc.updateWinningRevAndSetDocFlags(context.Background())
}

func vhC05UpdateAndReturnDoc(db *DatabaseCollectionWithUser, ctx context.Context, docid string, allowImport bool, expiry *uint32, opts *sgbucket.MutateInOptions,
	docUpdateEvent DocUpdateType, existingDoc *sgbucket.BucketDocument, isImport bool, updateRevCache bool, callback updateAndReturnDocCallback) (*Document, string, error) {
	w := vhC05W
	for {
		tip := ""
		if len(w.chain) > 0 {
			tip = w.chain[len(w.chain)-1]
		}
		tipDel := w.tipDeleted
		before := len(w.doc.History)
		newDoc, _, _, _, err := callback(w.doc)
		if err != nil {
			vAssert(len(w.doc.History) == before, "a refused write leaves the revision tree untouched")
			return nil, "", err
		}
		// compare-and-swap: another writer's acknowledged change may have landed since the document was read
		if w.retries < vParam("retries", 1) && vNondetBool() {
			w.retries++
			w.interfered = true
			// undo this attempt's tentative revision (the real loop re-reads the document)
			delete(w.doc.History, newDoc.RevID)
			g := byte('1' + len(w.chain))
			vhC05Append(w, vhRevID(g, 'f'), vNondetBool())
			continue
		}
		w.committed = true
		w.parentAt, w.tipDelAt = tip, tipDel
		return w.doc, newDoc.RevID, nil
	}
}

func vhC05IsSGWrite(doc *Document, ctx context.Context, rawBody []byte) (bool, bool, bool) {
	return true, false, false
}

func vhC05CanonicalJSON(v any) ([]byte, error) { return []byte("{}"), nil }

func vhC05CreateRevID(generation int, parentRevID string, bodyBytes []byte) string {
	vAssume(generation >= 1 && generation <= 9)
	return vhRevID(byte('0'+generation), 'd')
}

// VHarness_C05_Put: REST-style Put on a linear history in conflict-free mode.
func VHarness_C05_Put() {
	ctx := context.Background()
	col := vhC05Collection(false)
	w := &vhC05World{doc: NewDocument("doc")}
	vhC05W = w
	n := vNondetRange(0, 3)
	for i := 0; i < n; i++ {
		del := vNondetBool()
		if i < n-1 && del {
			// a tombstone in the middle of the chain is followed by a resurrection
			vCover("resurrected-history")
		}
		vhC05Append(w, vhRevID(byte('1'+i), 'a'), del)
	}
	body := Body{"k": "v"}
	// the revision the client names: none, one of the chain, or an unknown one
	named := ""
	switch vNondetRange(0, 2) {
	case 1:
		vAssume(n > 0)
		named = w.chain[vNondetRange(0, n-1)]
	case 2:
		named = "2-9"
	}
	if named != "" {
		body[BodyRev] = named
	}
	deleted := vNondetBool()
	if deleted {
		body[BodyDeleted] = true
	}
	before := len(w.doc.History)
	newRev, _, err := col.Put(ctx, "doc", body)
	if err != nil {
		vCover("put-refused")
		vAssert(!w.committed, "a write reported as failed was not committed")
		if !w.interfered {
			vAssert(len(w.doc.History) == before, "a refused write adds nothing")
			// a plain update of the current live revision is never refused
			if n > 0 && named == w.chain[n-1] && !w.tipDeleted {
				vFail("a write naming the current live revision is refused")
			}
		}
		return
	}
	vCover("put-acknowledged")
	vAssert(w.committed, "an acknowledged write was committed")
	ri, ok := w.doc.History[newRev]
	vAssert(ok, "the acknowledged revision is in the tree")
	if !ok {
		return
	}
	vAssert(ri.Parent == w.parentAt, "the acknowledged revision is a child of the revision that was current when it committed")
	vAssert(ri.Deleted == deleted, "the acknowledged revision carries the requested tombstone state")
	if named != "" {
		vAssert(named == w.parentAt, "a write naming a revision other than the current one is never acknowledged")
	} else {
		vAssert(w.parentAt == "" || w.tipDelAt, "a write naming no revision is acknowledged only for a new or deleted document")
	}
	// single chain: no revision has two children
	for id := range w.doc.History {
		kids := 0
		for _, r := range w.doc.History {
			if r.Parent == id {
				kids++
			}
		}
		vAssert(kids <= 1, "no revision has two accepted children in conflict-free mode")
	}
	vAssert(len(w.doc.History) == len(w.chain)+1, "exactly one revision was added")
}

var _ = base.SetOf
