//go:build verif

package db

import (
	"context"

	"github.com/couchbase/sync_gateway/base"
)

// C05 (reduced) — one accepted child per parent revision in conflict-free mode; each acknowledged write gets a
// sequence strictly greater than the one it replaces and every sequence drawn for it is accounted for.
//
// Reduction: the document write is a compare-and-swap loop (atomicity provided by the bucket and assumed), so
// every schedule of concurrent writers equals a sequence "callback runs on the current state, commits iff the
// state is unchanged, otherwise runs again on the newer state carrying docSequence / unusedSequences".

func vhC05Collection(allowConflicts bool) *DatabaseCollectionWithUser {
	dbc := &DatabaseContext{}
	dbc.Options.AllowConflicts = base.Ptr(allowConflicts)
	return &DatabaseCollectionWithUser{DatabaseCollection: &DatabaseCollection{dbCtx: dbc, ScopeName: base.DefaultScope, Name: base.DefaultCollection}}
}

// vhAdmit is the admission test Put applies to a write naming parent revision p.
func vhAdmit(col *DatabaseCollectionWithUser, doc *Document, p string, deleted bool) bool {
	return doc.History.isLeaf(p) && !col.IsIllegalConflict(context.Background(), doc, p, deleted, false, nil)
}

func vhDocFromRevs(revs []vhRev) *Document {
	doc := NewDocument("doc")
	order := make([]int, len(revs))
	for i := range order {
		order[i] = i
	}
	doc.History = vhInsertAll(revs, order)
	doc.updateWinningRevAndSetDocFlags(context.Background())
	return doc
}

// VHarness_C05_OneChildPerParent: conflict-free mode; two live writes name the same parent; at most one is admitted.
func VHarness_C05_OneChildPerParent() {
	col := vhC05Collection(false)
	n := vParam("revs", 3)
	revs := vhRevSet(n)
	for i := range revs {
		vAssume(revs[i].gen <= '7') // room for two more generations
	}
	doc := vhDocFromRevs(revs)
	pi := vNondetRange(0, n-1)
	p := revs[pi].id
	firstDeleted := vNondetBool()
	if !vhAdmit(col, doc, p, firstDeleted) {
		return
	}
	vCover("first-write-admitted")
	// an admitted live write extends the current revision (or resurrects a fully tombstoned document)
	// documented cases: (a) the parent is the current revision; (b) a tombstone of a live leaf; (c) the document is
	// deleted and a live revision resurrects it
	if !firstDeleted {
		vAssert(p == doc.GetRevTreeID() || doc.IsDeleted(), "a live write is only admitted on the current revision (or to resurrect a deleted document)")
	} else {
		vAssert(p == doc.GetRevTreeID() || !revs[pi].deleted, "a tombstone is only admitted on the current revision or on a live leaf")
	}
	before := len(doc.History)
	child := vhRevID(revs[pi].gen+1, 'c')
	err := doc.History.addRevision(context.Background(), "doc", RevInfo{ID: child, Parent: p, Deleted: firstDeleted})
	vAssert(err == nil, "the admitted revision is added to the tree")
	vAssert(len(doc.History) == before+1, "exactly one revision is added")
	doc.updateWinningRevAndSetDocFlags(context.Background())
	// a second writer that read the same parent now retries on the updated state
	secondDeleted := vNondetBool()
	vAssert(!vhAdmit(col, doc, p, secondDeleted), "a second write naming the same parent is rejected once the first is committed")
	vAssert(len(doc.History) == before+1, "a rejected write leaves the tree untouched")
}

// vhC05Alloc: a database context whose allocator works against the C07 harness store.
func vhC05Context() (*DatabaseContext, *vhSeqStore) {
	s, st := vhNewAllocator(false)
	dbc := &DatabaseContext{sequences: s}
	return dbc, st
}

// VHarness_C05_AssignSequence: two attempts of one write (the second after a CAS failure on a newer state).
func VHarness_C05_AssignSequence() {
	dbc, st := vhC05Context()
	ctx := context.Background()
	doc1 := NewDocument("doc")
	doc1.Sequence = vNondetU64()
	vAssume(doc1.Sequence < 1<<62)
	nRecent := vNondetRange(0, 2)
	var prev uint64
	for i := 0; i < nRecent; i++ {
		q := vNondetU64()
		vAssume(q > prev && q <= doc1.Sequence)
		prev = q
		doc1.RecentSequences = append(doc1.RecentSequences, q)
	}
	var drawn []uint64
	unused, err := dbc.assignSequence(ctx, 0, doc1, nil)
	if err == base.ErrMaxSequenceReleasedExceeded {
		return // the stored sequence is implausibly far above the counter: the write is refused (documented)
	}
	vAssert(err == nil, "assignSequence succeeds without storage faults")
	first := doc1.Sequence
	drawn = append(drawn, first)
	// attempt 2: the CAS failed; another writer's state carries a sequence at least as high as the one we read
	doc2 := NewDocument("doc")
	doc2.Sequence = vNondetU64()
	vAssume(doc2.Sequence < 1<<62)
	oldSeq2 := doc2.Sequence
	if vNondetBool() {
		vCover("retry")
		unused, err = dbc.assignSequence(ctx, first, doc2, unused)
		if err == base.ErrMaxSequenceReleasedExceeded {
			return
		}
		vAssert(err == nil, "assignSequence succeeds on retry")
		vAssert(doc2.Sequence > oldSeq2, "the committed sequence is strictly greater than the one it replaces")
		if first <= oldSeq2 {
			vAssert(doc2.Sequence != first, "an unusable sequence is not reused")
			found := false
			for _, u := range doc2.UnusedSequences {
				if u == first {
					found = true
				}
			}
			vAssert(found, "the sequence wasted by the failed attempt is carried as unused on the document")
		} else {
			vAssert(doc2.Sequence == first, "a still usable sequence is kept across the retry")
		}
		// recent sequences: sorted, contain the final sequence
		has := false
		for i, q := range doc2.RecentSequences {
			if i > 0 {
				vAssert(doc2.RecentSequences[i-1] <= q, "recent sequences stay sorted")
			}
			if q == doc2.Sequence {
				has = true
			}
		}
		vAssert(has, "the committed sequence is listed in the document's recent sequences")
	} else {
		vAssert(doc1.Sequence > 0, "a sequence is assigned")
	}
	_ = st
	_ = unused
}
