//go:build verif

package db

import (
	"context"

	"github.com/couchbase/sync_gateway/base"
)

// C19 — reserved properties a replication client must not set are rejected on a push, however the JSON is spelled:
// validateBlipBody's byte-level pre-filter runs on the raw body and must never let a body through whose decoded form has
// one of the reserved top-level properties. The raw body is `{` ws "key" ws `:` ws value ws [`,"k":2`] `}` with arbitrary
// JSON whitespace (0..1 byte each, symbolic); the decoder (not executed) is represented by its contract: the decoded body
// has exactly the top-level keys of the text.

var vhC19Key string
var vhC19Second bool

func vhC19DocBody(doc *Document, ctx context.Context) Body {
	b := Body{vhC19Key: 1}
	if vhC19Second {
		b["k"] = 2
	}
	return b
}

func vhC19WS() []byte {
	if vNondetBool() {
		return nil
	}
	c := vNondetU8()
	vAssume(c == ' ' || c == '\t' || c == '\n' || c == '\r')
	return []byte{c}
}

func VHarness_C19_BlipReserved() {
	keys := [...]string{base.SyncPropertyName, BodyId, BodyRev, BodyDeleted, BodyRevisions, "foo", "_idx", "x_id"}
	ki := vNondetRange(0, len(keys)-1)
	vhC19Key = keys[ki]
	vhC19Second = vNondetBool()
	var raw []byte
	raw = append(raw, '{')
	raw = append(raw, vhC19WS()...)
	raw = append(raw, []byte(`"`+vhC19Key+`"`)...)
	raw = append(raw, vhC19WS()...)
	raw = append(raw, ':')
	raw = append(raw, vhC19WS()...)
	raw = append(raw, '1')
	raw = append(raw, vhC19WS()...)
	if vhC19Second {
		raw = append(raw, []byte(`,"k":2`)...)
	}
	raw = append(raw, '}')
	err := validateBlipBody(context.Background(), raw, &Document{ID: "doc"})
	if ki <= 4 {
		vCover("reserved-key-pushed")
		vAssert(err != nil, "a pushed body with a reserved top-level property is rejected, however the JSON text is spaced")
	} else {
		vAssert(err == nil, "a pushed body without reserved properties is accepted")
	}
}

// VHarness_C19_StripUserKeys: stripping the gateway's internal properties before a body is stored never removes a
// property the gateway does not reserve (arbitrary keys of 1..3 bytes, with and without a leading underscore).
func VHarness_C19_StripUserKeys() {
	n := vNondetRange(1, vParam("keylen", 3))
	kb := vNondetBytes(n)
	key := string(kb)
	reserved := []string{base.SyncPropertyName, BodyId, BodyRev, BodyCV, BodyRevisions, BodyExpiry, BodyPurged, BodyRemoved}
	isReserved := false
	for _, r := range reserved {
		if key == r {
			isReserved = true
		}
	}
	vAssume(!isReserved) // "_sync_*" needs 6 bytes and is out of this bound
	out, stripped := StripInternalProperties(Body{key: "v"})
	_, kept := out[key]
	vAssert(kept && !stripped, "a property that is not reserved survives internal-property stripping")
	for _, r := range reserved {
		o, s := StripInternalProperties(Body{r: "v", "user": 1})
		_, gone := o[r]
		_, user := o["user"]
		vAssert(s && !gone && user, "a reserved internal property is stripped and the user's properties stay")
	}
}
