//go:build verif

package db

import (
	"context"
	"time"

	"github.com/couchbase/sync_gateway/base"
	"github.com/couchbase/sync_gateway/channels"
)

// C13 — the per-channel revocation feed (buildRevokedFeed): for a channel the user lost, every document of the channel
// that the client may hold and the user can no longer see is announced as revoked, in sequence order, until the
// request limit is reached - whatever the query page size, and however many scanned rows are skipped because the document
// is still visible through another channel or was never in the channel while the user had it.
//
// The producer goroutine is run to completion at its go statement (engine option eager_go); the channel query, the
// document's channel history check and the visibility check are harness functions answering from the ground truth.

type vhRevDoc struct {
	entry   *LogEntry
	visible bool // the user can still see the document's current revision
	prior   bool // the document was in the channel while the user had it (consulted for rows newer than since)
}

type vhRevWorld struct {
	docs  []*vhRevDoc
	calls int
}

var vhRevW *vhRevWorld

type vhRevCC struct {
	ChannelCache
	single *vhRevSingle
}

func (c *vhRevCC) getBypassChannelCache(ch channels.ID) (SingleChannelCache, error) {
	return c.single, nil
}

type vhRevSingle struct {
	SingleChannelCache
	id channels.ID
}

func (s *vhRevSingle) ChannelID() channels.ID { return s.id }

// GetChanges: the channel query's contract - rows after the since position, ascending, at most limit.
func (s *vhRevSingle) GetChanges(ctx context.Context, options ChangesOptions) ([]*LogEntry, error) {
	vhRevW.calls++
	since := options.Since.SafeSequence()
	var out []*LogEntry
	for _, d := range vhRevW.docs {
		if d.entry.Sequence > since && (options.Limit == 0 || len(out) < options.Limit) {
			out = append(out, d.entry)
		}
	}
	return out, nil
}

func vhRevDocFor(docID string) *vhRevDoc {
	for _, d := range vhRevW.docs {
		if d.entry.DocID == docID {
			return d
		}
	}
	vFail("harness: unknown document")
	return nil
}

func vhRevGetSyncData(c *DatabaseCollection, ctx context.Context, docid string) (SyncData, error) {
	return SyncData{}, nil
}

func vhRevWasInChannel(db *DatabaseCollectionWithUser, ctx context.Context, syncData SyncData, docID, chanName string, since uint64) (bool, error) {
	return vhRevDocFor(docID).prior, nil
}

func vhRevHasAccess(ctx context.Context, collection *DatabaseCollectionWithUser, docID string) (bool, error) {
	return vhRevDocFor(docID).visible, nil
}

type vhLiveCtx struct{ done chan struct{} }

func (c *vhLiveCtx) Deadline() (time.Time, bool) { return time.Time{}, false }
func (c *vhLiveCtx) Done() <-chan struct{}       { return c.done }
func (c *vhLiveCtx) Err() error                  { return nil }
func (c *vhLiveCtx) Value(key any) any           { return nil }

func VHarness_C13_RevokedFeed() {
	ctx := context.Background()
	n := vNondetRange(0, vParam("rows", 3))
	w := &vhRevWorld{}
	vhRevW = w
	ids := [...]string{"d1", "d2", "d3", "d4"}
	prev := uint64(0)
	for i := 0; i < n; i++ {
		seq := vNondetU64()
		vAssume(seq > prev && seq < 1<<62)
		prev = seq
		w.docs = append(w.docs, &vhRevDoc{entry: &LogEntry{Sequence: seq, DocID: ids[i], RevID: "1-a"}, visible: vNondetBool(), prior: vNondetBool()})
	}
	since, revokedAt, revokeFrom := vNondetU64(), vNondetU64(), vNondetU64()
	vAssume(since < 1<<62 && revokedAt < 1<<62 && revokeFrom < 1<<62)
	queryLimit := vNondetRange(1, 2)
	requestLimit := vNondetRange(0, 2)

	dbc := &DatabaseContext{}
	dbc.Options.CacheOptions = &CacheOptions{}
	dbc.Options.CacheOptions.ChannelQueryLimit = queryLimit
	chID := channels.NewID("A", base.DefaultCollectionID)
	dbc.changeCache.channelCache = &vhRevCC{single: &vhRevSingle{id: chID}}
	col := &DatabaseCollectionWithUser{DatabaseCollection: &DatabaseCollection{dbCtx: dbc, ScopeName: base.DefaultScope, Name: base.DefaultCollection}}
	options := ChangesOptions{Since: SequenceID{Seq: since}, Limit: requestLimit, Revocations: true, ChangesCtx: &vhLiveCtx{done: make(chan struct{})}}

	feed := col.buildRevokedFeed(ctx, chID, options, revokedAt, since, revokeFrom, "user")
	var got []*ChangeEntry
	for {
		e, ok := <-feed
		if !ok {
			break
		}
		got = append(got, e)
	}

	// ground truth: the rows after the resume point that need a revocation notice, in order
	var want []*vhRevDoc
	for _, d := range w.docs {
		if d.entry.Sequence <= revokeFrom {
			continue
		}
		if d.entry.Sequence > since && !d.prior {
			continue // written after the client's position and never in the channel while the user had it
		}
		if d.visible {
			continue // still visible through another channel
		}
		want = append(want, d)
	}
	expect := len(want)
	if requestLimit > 0 && expect > requestLimit {
		expect = requestLimit
		vCover("revoked-feed-limited")
	}
	vAssert(len(got) == expect, "the revocation feed announces every document that needs it, up to the request limit, and nothing else")
	for i := 0; i < len(got) && i < len(want); i++ {
		vCover("revocation-sent")
		vAssert(got[i].Err == nil, "no error entry on a healthy revocation feed")
		vAssert(got[i].ID == want[i].entry.DocID && got[i].Revoked, "revocations are announced in sequence order, for exactly the documents that need one")
		vAssert(got[i].Seq.Seq == want[i].entry.Sequence && got[i].Seq.TriggeredBy == revokedAt, "a revocation carries the document's sequence, triggered by the revoking sequence")
	}
	if w.calls > 1 {
		vCover("revoked-feed-paged")
	}
}
