//go:build verif

package db

import (
	"context"

	"github.com/couchbase/sync_gateway/base"
)

// C11 — no storage failure is swallowed: persisting the externally stored bodies of conflicting revisions (part of
// every document write) reports a failed store operation.

type vhBodyStore struct {
	base.DataStore
	adds  int
	fails int
}

func (s *vhBodyStore) AddRaw(ctx context.Context, k string, exp uint32, v []byte) (bool, error) {
	s.adds++
	if vNondetBool() {
		s.fails++
		return false, vhErrResyncStore
	}
	return true, nil
}

// VHarness_C11_PersistRevisionBodies: one or two revision bodies to persist, each store operation may fail.
func VHarness_C11_PersistRevisionBodies() {
	ctx := context.Background()
	doc := NewDocument("doc")
	doc.History = RevTree{
		"1-a": &RevInfo{ID: "1-a"},
		"2-a": &RevInfo{ID: "2-a", Parent: "1-a", BodyKey: "_sync:rb:k1", Body: []byte(`{"a":1}`)},
		"2-b": &RevInfo{ID: "2-b", Parent: "1-a", BodyKey: "_sync:rb:k2", Body: []byte(`{"b":1}`)},
	}
	doc.addedRevisionBodies = []string{"2-a"}
	if vNondetBool() {
		doc.addedRevisionBodies = append(doc.addedRevisionBodies, "2-b")
	}
	n := len(doc.addedRevisionBodies)
	st := &vhBodyStore{}
	err := doc.persistModifiedRevisionBodies(ctx, st)
	if st.fails > 0 {
		vCover("body-store-failed")
		vAssert(err != nil, "a failed store operation while persisting a revision body is reported, not turned into a success")
	} else {
		vCover("bodies-stored")
		vAssert(err == nil, "persisting revision bodies succeeds when the store does")
		vAssert(st.adds == n, "every added revision body is written")
		vAssert(len(doc.addedRevisionBodies) == 0, "the list of bodies to persist is cleared once they are stored")
	}
}
