//go:build verif

package db

import (
	"context"

	"github.com/couchbase/sync_gateway/auth"
	"github.com/couchbase/sync_gateway/base"
)

// C07 / C11 — a principal update accounts for the sequence it reserves: it ends up on the stored principal, or it
// is published as unused, for every outcome of the save (success, storage error, CAS mismatch with retry).

var vhUPAuth *auth.Authenticator

func vhStubAuthenticator(dbc *DatabaseContext, ctx context.Context) *auth.Authenticator {
	return vhUPAuth
}

func VHarness_C07_UpdatePrincipal() {
	ctx := context.Background()
	s, st := vhNewAllocator(false)
	vAssume(s.last >= 10) // the stored role starts at sequence 1
	dbc := &DatabaseContext{sequences: s}
	vhUPAuth = auth.VhNewAuthenticatorWithRole(true, vParam("interfere", 1) > 0, vParam("interfere", 1))
	assignedBefore := s.dbStats.SequenceAssignedCount.Value()
	name := "r1"
	_, _, err := dbc.UpdatePrincipal(ctx, &auth.PrincipalConfig{Name: &name, ExplicitChannels: base.SetOf("B")}, false, true)
	assigned := s.dbStats.SequenceAssignedCount.Value() - assignedBefore
	var released uint64
	for _, iv := range st.released {
		released += iv.hi - iv.lo + 1
	}
	storedSeq, okWrites, _ := auth.VhStoredRoleSequence(vhUPAuth)
	if err == nil {
		vCover("principal-updated")
		vAssert(okWrites >= 1, "a successful update wrote the principal")
		vAssert(assigned == released+1, "of the sequences reserved by a successful update exactly one is carried by the stored principal, the rest are released")
		vAssert(storedSeq > 1, "the stored principal carries the new sequence")
	} else {
		vCover("principal-update-failed")
		vAssert(okWrites == 0, "a failed update did not write the principal")
		vAssert(assigned == released, "every sequence reserved by a failed principal update is released as unused")
		vAssert(storedSeq == 1, "a failed update leaves the stored principal unchanged")
	}
}

// VHarness_C07_UpdateUser: the same accounting for a user with an email address, where Save can fail after the
// principal document (carrying the new sequence) has been written: that sequence must then NOT be released.
func VHarness_C07_UpdateUser() {
	ctx := context.Background()
	s, st := vhNewAllocator(false)
	vAssume(s.last >= 10)
	dbc := &DatabaseContext{sequences: s}
	vhUPAuth = auth.VhNewAuthenticatorWithUser(true, vParam("interfere", 1) > 0, vParam("interfere", 1))
	assignedBefore := s.dbStats.SequenceAssignedCount.Value()
	name := "u1"
	_, _, err := dbc.UpdatePrincipal(ctx, &auth.PrincipalConfig{Name: &name, ExplicitChannels: base.SetOf("B")}, true, true)
	assigned := s.dbStats.SequenceAssignedCount.Value() - assignedBefore
	var released uint64
	for _, iv := range st.released {
		released += iv.hi - iv.lo + 1
		vAssert(iv.hi >= iv.lo, "released interval well-formed")
	}
	storedSeq, _, _ := auth.VhStoredUserSequence(vhUPAuth)
	var carried uint64
	if storedSeq != 1 {
		carried = 1
		vAssert(vhIn(storedSeq, st.released) == 0, "the sequence carried by the stored principal is not also released as unused")
	}
	if err == nil {
		vCover("user-updated")
		vAssert(carried == 1, "a successful update stored the new sequence")
	} else if carried == 1 {
		vCover("user-written-then-error")
	}
	vAssert(assigned == released+carried, "every sequence reserved by a user update is carried by the stored user or released as unused")
}

// VHarness_C07_DeleteRole: DatabaseContext.DeleteRole (mark deleted, or purge) accounts for the sequence it reserves.
func VHarness_C07_DeleteRole() {
	ctx := context.Background()
	s, st := vhNewAllocator(false)
	vAssume(s.last >= 10)
	dbc := &DatabaseContext{sequences: s}
	vhUPAuth = auth.VhNewAuthenticatorWithRole(true, vParam("interfere", 1) > 0, vParam("interfere", 1))
	assignedBefore := s.dbStats.SequenceAssignedCount.Value()
	purge := vNondetBool()
	err := dbc.DeleteRole(ctx, "r1", purge)
	assigned := s.dbStats.SequenceAssignedCount.Value() - assignedBefore
	var released uint64
	for _, iv := range st.released {
		released += iv.hi - iv.lo + 1
	}
	storedSeq, _, _ := auth.VhStoredRoleSequence(vhUPAuth)
	var carried uint64
	if storedSeq > 1 {
		carried = 1
		vAssert(vhIn(storedSeq, st.released) == 0, "the sequence carried by the stored role is not also released as unused")
	}
	if purge {
		vCover("role-purged")
	}
	if err == nil {
		vCover("role-deleted")
	}
	vAssert(assigned == released+carried, "every sequence reserved by a role deletion is carried by the stored role or released as unused")
}

// VHarness_C07_RegeneratePrincipal: regeneratePrincipalSequences (resync with regenerate_sequences) for a role that
// may already carry this resync's id (updated by another node).
func VHarness_C07_RegeneratePrincipal() {
	ctx := context.Background()
	s, st := vhNewAllocator(false)
	vAssume(s.last >= 10)
	dbc := &DatabaseContext{sequences: s}
	a := auth.VhNewAuthenticatorWithRole(true, vParam("interfere", 1) > 0, vParam("interfere", 1))
	vhUPAuth = a
	if vNondetBool() {
		auth.VhSetStoredRoleResyncID(a, "resync1")
		vCover("already-resynced")
	}
	role, gerr := a.GetRole("r1")
	if gerr != nil || role == nil {
		return
	}
	assignedBefore := s.dbStats.SequenceAssignedCount.Value()
	err := dbc.regeneratePrincipalSequences(ctx, a, role, "resync1")
	_ = err
	assigned := s.dbStats.SequenceAssignedCount.Value() - assignedBefore
	var released uint64
	for _, iv := range st.released {
		released += iv.hi - iv.lo + 1
	}
	storedSeq, _, _ := auth.VhStoredRoleSequence(a)
	var carried uint64
	if storedSeq > 1 {
		carried = 1
		vAssert(vhIn(storedSeq, st.released) == 0, "the sequence carried by the stored role is not also released as unused")
	}
	vAssert(assigned == released+carried, "every sequence reserved while regenerating a principal's sequence is carried by the stored principal or released as unused")
}
