//go:build verif

package db

import (
	"context"
	"math"

	"github.com/couchbase/sync_gateway/auth"
	"github.com/couchbase/sync_gateway/base"
)

// C13 (document side) — a revocation for a document is needed exactly when the document was in the revoked
// channel at some moment at which the user held that channel, for an access period that ended after the
// client's resume position.

type vhPeriodUser struct {
	auth.User
	periods []auth.GrantHistorySequencePair
}

func (u *vhPeriodUser) CollectionChannelGrantedPeriods(scope, collection, chanName string) ([]auth.GrantHistorySequencePair, error) {
	return u.periods, nil
}

func VHarness_C13_DocInChannelPrior() {
	u := &vhPeriodUser{}
	np := vNondetRange(0, vParam("periods", 2))
	for i := 0; i < np; i++ {
		p := auth.GrantHistorySequencePair{StartSeq: vNondetU64(), EndSeq: vNondetU64()}
		if vNondetBool() {
			p.EndSeq = math.MaxUint64 // still held
		}
		vAssume(p.StartSeq >= 1 && p.StartSeq < p.EndSeq)
		u.periods = append(u.periods, p)
	}
	var sd SyncData
	type iv struct{ start, end uint64 }
	var docIn []iv
	ne := vNondetRange(0, vParam("entries", 2))
	for i := 0; i < ne; i++ {
		e := ChannelSetEntry{Name: "A", Start: vNondetU64(), End: vNondetU64()}
		other := vNondetBool()
		if other {
			e.Name = "B" // membership of another channel must not count
		}
		open := vNondetBool()
		if open {
			e.End = 0 // still in the channel
		}
		vAssume(e.Start >= 1 && (open || e.Start < e.End))
		if vNondetBool() {
			sd.ChannelSet = append(sd.ChannelSet, e)
		} else {
			sd.ChannelSetHistory = append(sd.ChannelSetHistory, e)
		}
		if !other {
			end := e.End
			if open {
				end = math.MaxUint64
			}
			docIn = append(docIn, iv{e.Start, end})
		}
	}
	since := vNondetU64()
	col := &DatabaseCollectionWithUser{DatabaseCollection: &DatabaseCollection{dbCtx: &DatabaseContext{}, ScopeName: base.DefaultScope, Name: base.DefaultCollection}, user: u}
	got, err := col.wasDocInChannelPriorToRevocation(context.Background(), sd, "doc", "A", since)
	vAssert(err == nil, "no error")
	t := vNondetU64() // witness instant
	for _, d := range docIn {
		for _, p := range u.periods {
			if d.start <= t && t < d.end && p.StartSeq <= t && t < p.EndSeq && p.EndSeq > since {
				vCover("revocation-needed")
				vAssert(got, "a document that was visible through the channel during an access period ending after the resume position is revoked")
			}
		}
	}
	if got {
		overlap := false
		for _, d := range docIn {
			for _, p := range u.periods {
				lo := d.start
				if p.StartSeq > lo {
					lo = p.StartSeq
				}
				hi := d.end
				if p.EndSeq < hi {
					hi = p.EndSeq
				}
				if lo < hi && p.EndSeq > since {
					overlap = true
				}
			}
		}
		vAssert(overlap, "no revocation is derived without an overlap of document membership and user access")
	}
}
