//go:build verif

package auth

import (
	"time"

	"github.com/couchbase/sync_gateway/base"
	ch "github.com/couchbase/sync_gateway/channels"
)

// C13 — grant history kernels behind revocation: a lost grant is always recorded, and the set of channels to
// revoke for a pulling client is complete (everything held at the resume point and lost since) and never
// contains a channel the user still has.

func vhNondetHistory(maxEntries int) (TimedSetHistory, [2][]GrantHistorySequencePair) {
	h := TimedSetHistory{}
	var ghost [2][]GrantHistorySequencePair
	for i, c := range vhChans {
		n := vNondetRange(0, maxEntries)
		if n == 0 {
			continue
		}
		var entries []GrantHistorySequencePair
		var prevEnd uint64
		for k := 0; k < n; k++ {
			e := GrantHistorySequencePair{StartSeq: vNondetU64(), EndSeq: vNondetU64()}
			vAssume(e.StartSeq >= 1 && e.StartSeq < e.EndSeq && e.EndSeq < 1<<62)
			vAssume(e.StartSeq >= prevEnd) // recorded periods follow each other
			prevEnd = e.EndSeq
			entries = append(entries, e)
		}
		h[c] = GrantHistory{UpdatedAt: 1, Entries: entries}
		ghost[i] = append([]GrantHistorySequencePair{}, entries...)
	}
	return h, ghost
}

// VHarness_C13_RebuildKeepsHistory: when a rebuild finds a previously held channel gone, the period it was held
// is recorded, ending exactly at the invalidation sequence; recorded periods are never lost (compaction may only
// widen them) and nothing is recorded for channels that are kept.
func VHarness_C13_RebuildKeepsHistory() {
	a := vhNewAuth(vhNewStore(false, false))
	a.ClientPartitionWindow = 30 * 24 * time.Hour
	comp := &vhComputer{channels: vhNondetTimedSet(false)}
	a.channelComputer = comp
	explicit := vhNondetTimedSet(false)
	old := vhNondetTimedSet(false)
	inval := vNondetU64()
	vAssume(inval >= 1 && inval < 1<<62)
	hist, ghost := vhNondetHistory(1)
	r := &roleImpl{Name_: "r1", ExplicitChannels_: explicit, Channels_: old, ChannelInvalSeq: inval, ChannelHistory_: hist}
	oldCopy := old.Copy()
	err := a.rebuildCollectionChannels(r, base.DefaultScope, base.DefaultCollection)
	vAssert(err == nil, "rebuild succeeds")
	t := vNondetU64() // witness instant
	for i, c := range vhChans {
		oldGrant, had := oldCopy[c]
		_, keeps := r.Channels_[c]
		entries := r.ChannelHistory_[c].Entries
		if had && !keeps {
			vCover("grant-lost")
			found := false
			for _, e := range entries {
				if e.EndSeq == inval && e.StartSeq <= oldGrant.Sequence {
					found = true
				}
			}
			vAssert(found, "a grant lost at a rebuild is recorded with a period ending at the invalidation sequence")
		}
		// earlier recorded periods still cover every instant they covered
		for _, g := range ghost[i] {
			if g.StartSeq <= t && t < g.EndSeq {
				covered := false
				for _, e := range entries {
					if e.StartSeq <= t && t < e.EndSeq {
						covered = true
					}
				}
				vAssert(covered, "an instant covered by recorded history stays covered after a rebuild")
			}
		}
		if !(had && !keeps) {
			vAssert(len(entries) == len(ghost[i]), "no history entry is invented for a channel that was not lost")
		}
	}
}

// VHarness_C13_RevokedChannels: the revocation set for a resume position (since / lowSeq / triggeredBy).
func VHarness_C13_RevokedChannels() {
	a := vhNewAuth(vhNewStore(false, false))
	u := &userImpl{auth: a}
	u.Name_ = "u1"
	u.Channels_ = vhNondetTimedSet(false)
	u.RolesSince_ = ch.TimedSet{}
	u.roles = []Role{}
	hist, ghost := vhNondetHistory(vParam("entries", 2))
	u.ChannelHistory_ = hist
	since, low, trig := vNondetU64(), vNondetU64(), vNondetU64()
	vAssume(since < 1<<62 && low < 1<<62 && trig < 1<<62)
	check := since
	if low > 0 {
		check = low
	} else if trig > 0 {
		check = trig
	}
	vMapOrder(3)
	revoked, err := u.RevokedCollectionChannels(base.DefaultScope, base.DefaultCollection, since, low, trig)
	vMapOrder(0)
	vAssert(err == nil, "RevokedCollectionChannels succeeds")
	for i, c := range vhChans {
		_, has := u.Channels_[c]
		seq, listed := revoked[c]
		if has {
			vAssert(!listed, "no revocation for a channel the user still has")
		}
		for _, e := range ghost[i] {
			if e.StartSeq <= check && check < e.EndSeq && !has {
				vCover("revocation-needed")
				vAssert(listed, "a channel held at the resume position and lost since is revoked")
				if listed {
					vAssert(seq >= e.EndSeq, "the revocation is attributed to a sequence at or after the loss")
				}
			}
		}
		if listed {
			var lastEnd uint64
			for _, e := range ghost[i] {
				lastEnd = e.EndSeq
			}
			vAssert(len(ghost[i]) > 0 && seq == lastEnd, "the revocation sequence is the most recent loss of the channel")
		}
	}
}

// vhNondetPeriod: an optional closed period [s,e) strictly before `before`.
func vhNondetPeriod(before uint64) (p GrantHistorySequencePair, ok bool) {
	if !vNondetBool() {
		return p, false
	}
	p = GrantHistorySequencePair{StartSeq: vNondetU64(), EndSeq: vNondetU64()}
	vAssume(p.StartSeq >= 1 && p.StartSeq < p.EndSeq && p.EndSeq <= before)
	return p, true
}

func vhIn(p GrantHistorySequencePair, ok bool, x uint64) bool {
	return ok && p.StartSeq <= x && x < p.EndSeq
}

// VHarness_C13_GrantedPeriods: the periods reported for a channel cover every instant at which the user really had
// the channel: directly (an earlier, ended grant or the current one) or through role r1 while holding it (an earlier,
// ended holding or the current one) and while the role had the channel (an earlier, ended grant or the current one).
// (Reporting more than that only causes superfluous removal messages; reporting less leaves a stale document.)
func VHarness_C13_GrantedPeriods() {
	s := vhNewStore(false, false)
	a := vhNewAuth(s)
	u := &userImpl{auth: a}
	u.Name_ = "u1"
	// direct access of the user to channel A
	userCur, userCurOK := vNondetU64(), vNondetBool()
	vAssume(userCur >= 1 && userCur < 1<<62)
	userPast, userPastOK := vhNondetPeriod(userCur)
	u.Channels_ = ch.TimedSet{"other": ch.NewVbSimpleSequence(1)}
	if userCurOK {
		u.Channels_["A"] = ch.NewVbSimpleSequence(userCur)
	}
	if userPastOK {
		u.ChannelHistory_ = TimedSetHistory{"A": GrantHistory{UpdatedAt: 1, Entries: []GrantHistorySequencePair{userPast}}}
	}
	// the user's holding of role r1
	holdCur, holdCurOK := vNondetU64(), vNondetBool()
	vAssume(holdCur >= 1 && holdCur < 1<<62)
	holdPast, holdPastOK := vhNondetPeriod(holdCur)
	u.RolesSince_ = ch.TimedSet{}
	if holdCurOK {
		u.RolesSince_["r1"] = ch.NewVbSimpleSequence(holdCur)
	}
	if holdPastOK {
		u.RoleHistory_ = TimedSetHistory{"r1": GrantHistory{UpdatedAt: 1, Entries: []GrantHistorySequencePair{holdPast}}}
	}
	// role r1's access to channel A
	roleCur, roleCurOK := vNondetU64(), vNondetBool()
	vAssume(roleCur >= 1 && roleCur < 1<<62)
	roleDeleted, roleDelEnd := false, uint64(0)
	rolePast, rolePastOK := vhNondetPeriod(roleCur)
	r := &roleImpl{Name_: "r1", docID: a.DocIDForRole("r1"), Sequence_: 1, Channels_: ch.TimedSet{}}
	if roleCurOK {
		r.Channels_["A"] = ch.NewVbSimpleSequence(roleCur)
	}
	if rolePastOK {
		r.ChannelHistory_ = TimedSetHistory{"A": GrantHistory{UpdatedAt: 1, Entries: []GrantHistorySequencePair{rolePast}}}
	}
	// the role may have been deleted (not purged) at some sequence: DeleteRole invalidates its channels at that sequence
	// and moves what it had into its channel history; users that list the role keep listing it until they are rebuilt
	if vNondetBool() {
		vCover("role-deleted")
		delSeq := vNondetU64()
		vAssume(delSeq < 1<<62)
		r.Deleted = true
		r.ChannelInvalSeq = delSeq
		if roleCurOK {
			vAssume(delSeq > roleCur)
			var entries []GrantHistorySequencePair
			if rolePastOK {
				entries = append(entries, rolePast)
			}
			entries = append(entries, GrantHistorySequencePair{StartSeq: roleCur, EndSeq: delSeq})
			r.ChannelHistory_ = TimedSetHistory{"A": GrantHistory{UpdatedAt: 1, Entries: entries}}
			roleDelEnd = delSeq
		} else {
			vAssume(!rolePastOK || delSeq >= rolePast.EndSeq)
		}
		roleDeleted = true
	}
	s.docs[r.docID] = &vhDoc{v: r, cas: s.nextCas()}

	vMapOrder(1)
	pairs, err := u.CollectionChannelGrantedPeriods(base.DefaultScope, base.DefaultCollection, "A")
	vMapOrder(0)
	vAssert(err == nil, "CollectionChannelGrantedPeriods succeeds")

	x := vNondetU64() // witness instant
	vAssume(x >= 1 && x < 1<<62)
	direct := vhIn(userPast, userPastOK, x) || (userCurOK && x >= userCur)
	holds := vhIn(holdPast, holdPastOK, x) || (holdCurOK && x >= holdCur)
	roleHas := vhIn(rolePast, rolePastOK, x) || (roleCurOK && x >= roleCur && (!roleDeleted || x < roleDelEnd))
	covered := false
	for _, p := range pairs {
		if p.StartSeq <= x && x < p.EndSeq {
			covered = true
		}
	}
	if direct {
		vCover("direct-access")
		vAssert(covered, "an instant of direct access to the channel is inside a reported period")
	}
	if holds && roleHas {
		vCover("access-through-role")
		vAssert(covered, "an instant of access to the channel through a held role is inside a reported period")
	}
}
