//go:build verif

package auth

import (
	"context"
	"errors"

	sgbucket "github.com/couchbase/sg-bucket"
	"github.com/couchbase/sync_gateway/base"
)

// Harness key/value store: an in-memory model of the metadata store in which every operation first
// draws a symbolic outcome (success / generic storage error) and, between operations, "another node"
// may rewrite a document (new CAS, optionally marked deleted). A failed operation has no effect.
// Documents are kept as Go values (principal/session snapshots); the JSON codec is not exercised.

var vhErrStore = errors.New("verif: injected storage error")

type vhDoc struct {
	v   any
	cas uint64
}

type vhStore struct {
	base.DataStore
	docs          map[string]*vhDoc
	casCtr        uint64
	faults        bool
	interfere     bool
	okWrites      int
	failedOps     int
	deletes       int
	interfered    int
	interfereMax  int // 0 = unbounded
	commitUpdates bool
	onInterfere   func(d *vhDoc) // what the other node changes (besides the CAS) when it interferes
}

func vhNewStore(faults, interfere bool) *vhStore {
	return &vhStore{docs: map[string]*vhDoc{}, casCtr: 100, faults: faults, interfere: interfere}
}

func (s *vhStore) nextCas() uint64 {
	s.casCtr++
	return s.casCtr
}

// vhSnapshot copies the persistent state of a principal or session at write time.
func vhSnapshot(v any) any {
	switch x := v.(type) {
	case *roleImpl:
		c := *x
		return &c
	case *userImpl:
		c := *x
		return &c
	case *LoginSession:
		c := *x
		return &c
	}
	return v
}

// otherNode models a concurrent writer: it may rewrite the stored principal between two of our operations.
func (s *vhStore) otherNode(k string) {
	if !s.interfere || (s.interfereMax > 0 && s.interfered >= s.interfereMax) {
		return
	}
	d, ok := s.docs[k]
	if !ok {
		return
	}
	if vNondetBool() {
		s.interfered++
		d.cas = s.nextCas()
		if s.onInterfere != nil {
			s.onInterfere(d)
		}
		if r, ok := d.v.(*roleImpl); ok && vNondetBool() {
			c := *r
			c.Deleted = true
			d.v = &c
		}
	}
}

func (s *vhStore) fail() bool {
	if s.faults && vNondetBool() {
		s.failedOps++
		return true
	}
	return false
}

func (s *vhStore) WriteCas(ctx context.Context, k string, exp uint32, cas uint64, v any, opt sgbucket.WriteOptions) (uint64, error) {
	s.otherNode(k)
	if s.fail() {
		return 0, vhErrStore
	}
	d, ok := s.docs[k]
	if !ok {
		if cas != 0 {
			return 0, sgbucket.MissingError{Key: k}
		}
		d = &vhDoc{}
		s.docs[k] = d
	} else if cas != d.cas {
		return 0, sgbucket.CasMismatchErr{Expected: cas, Actual: d.cas}
	}
	d.v = vhSnapshot(v)
	d.cas = s.nextCas()
	s.okWrites++
	return d.cas, nil
}

func (s *vhStore) Set(ctx context.Context, k string, exp uint32, opts *sgbucket.UpsertOptions, v any) error {
	if s.fail() {
		return vhErrStore
	}
	s.docs[k] = &vhDoc{v: vhSnapshot(v), cas: s.nextCas()}
	s.okWrites++
	return nil
}

func (s *vhStore) Delete(ctx context.Context, k string) error {
	if s.fail() {
		return vhErrStore
	}
	if _, ok := s.docs[k]; !ok {
		return sgbucket.MissingError{Key: k}
	}
	delete(s.docs, k)
	s.deletes++
	s.okWrites++
	return nil
}

func (s *vhStore) Get(ctx context.Context, k string, rv any) (uint64, error) {
	if s.fail() {
		return 0, vhErrStore
	}
	d, ok := s.docs[k]
	if !ok {
		return 0, sgbucket.MissingError{Key: k}
	}
	switch t := rv.(type) {
	case *LoginSession:
		*t = *(d.v.(*LoginSession))
	default:
		vFail("harness store: Get into unsupported target type")
	}
	return d.cas, nil
}

// Update: natively (replay) and, for harnesses that redirect the JSON codec to vhJSONMarshal/vhJSONUnmarshal, in the
// engine. With commitUpdates the callback's output replaces the stored value (decoded through the same codec).
func (s *vhStore) Update(ctx context.Context, k string, exp uint32, callback sgbucket.UpdateFunc) (uint64, error) {
	if s.fail() { // same draw as vhGetPrincipal, so replay values line up
		return 0, vhErrStore
	}
	d, ok := s.docs[k]
	var cur []byte
	if ok {
		var err error
		cur, err = base.JSONMarshal(d.v)
		if err != nil {
			return 0, err
		}
	}
	updated, _, isDelete, err := callback(cur)
	if err != nil {
		return 0, err
	}
	if s.commitUpdates {
		if s.fail() { // the write itself may fail after the callback ran
			return 0, vhErrStore
		}
		if isDelete {
			delete(s.docs, k)
			s.okWrites++
			return 0, nil
		}
		if updated != nil {
			var nv any
			switch d.v.(type) {
			case *userImpl:
				nv = &userImpl{}
			case *roleImpl:
				nv = &roleImpl{}
			default:
				vFail("harness store: Update of unsupported value type")
			}
			if err := base.JSONUnmarshal(updated, nv); err != nil {
				return 0, err
			}
			nd := &vhDoc{v: nv, cas: s.nextCas()}
			s.docs[k] = nd
			s.okWrites++
			return nd.cas, nil
		}
	}
	if ok {
		return d.cas, nil
	}
	return 0, nil
}

// SubdocInsert models the sub-document insert of the invalidation paths: the field is set only if it is absent
// (zero, as the fields are omitempty); an existing field gives ErrPathExists, a missing parent ErrPathNotFound.
func (s *vhStore) SubdocInsert(ctx context.Context, k string, fieldPath string, cas uint64, value any) error {
	if s.fail() {
		return vhErrStore
	}
	d, ok := s.docs[k]
	if !ok {
		return sgbucket.MissingError{Key: k}
	}
	seq, isSeq := value.(uint64)
	if !isSeq {
		vFail("harness store: SubdocInsert of a non-sequence value")
	}
	nv := vhDeepSnapshot(d.v)
	var role *roleImpl
	var user *userImpl
	switch x := nv.(type) {
	case *userImpl:
		user, role = x, &x.roleImpl
	case *roleImpl:
		role = x
	}
	var target *uint64
	switch fieldPath {
	case "channel_inval_seq":
		target = &role.ChannelInvalSeq
	case "role_inval_seq":
		if user == nil {
			return base.ErrPathNotFound
		}
		target = &user.RoleInvalSeq
	case "collection_access.s1.c1.channel_inval_seq":
		ca, ok := role.CollectionsAccess["s1"]["c1"]
		if !ok {
			return base.ErrPathNotFound
		}
		target = &ca.ChannelInvalSeq
	case "collection_access._default.c2.channel_inval_seq":
		ca, ok := role.CollectionsAccess["_default"]["c2"]
		if !ok {
			return base.ErrPathNotFound
		}
		target = &ca.ChannelInvalSeq
	default:
		vFail("harness store: SubdocInsert of an unmodelled path")
	}
	if *target != 0 {
		return base.ErrPathExists
	}
	*target = seq
	s.docs[k] = &vhDoc{v: nv, cas: s.nextCas()}
	s.okWrites++
	return nil
}

// ---- in-memory stand-in for the JSON codec on principals (engine only: redirect targets of base.JSONMarshal /
// base.JSONUnmarshal). A marshalled value is a one-byte handle into a table of snapshots.

var vhCodecTable []any

func vhCopyCollectionsAccess(m map[string]map[string]*CollectionAccess) map[string]map[string]*CollectionAccess {
	if m == nil {
		return nil
	}
	out := map[string]map[string]*CollectionAccess{}
	for sc, cols := range m {
		o := map[string]*CollectionAccess{}
		for cn, ca := range cols {
			c := *ca
			o[cn] = &c
		}
		out[sc] = o
	}
	return out
}

func vhDeepSnapshot(v any) any {
	switch x := v.(type) {
	case *userImpl:
		c := *x
		c.CollectionsAccess = vhCopyCollectionsAccess(x.CollectionsAccess)
		c.auth, c.roles, c.deletedRoles = nil, nil, nil
		c.cas, c.docID = 0, ""
		return &c
	case *roleImpl:
		c := *x
		c.CollectionsAccess = vhCopyCollectionsAccess(x.CollectionsAccess)
		c.cas, c.docID = 0, ""
		return &c
	}
	vFail("harness codec: unsupported value type")
	return nil
}

func VhJSONMarshal(v any) ([]byte, error) {
	if p, ok := v.(*Principal); ok {
		v = *p
	}
	vhCodecTable = append(vhCodecTable, vhDeepSnapshot(v))
	return []byte{byte(len(vhCodecTable) - 1)}, nil
}

func VhJSONUnmarshal(data []byte, v any) error {
	src := vhDeepSnapshot(vhCodecTable[int(data[0])])
	if p, ok := v.(*Principal); ok {
		v = *p
	}
	switch t := v.(type) {
	case *userImpl:
		u, ok := src.(*userImpl)
		if !ok {
			return errors.New("verif codec: stored value is not a user")
		}
		docID := t.docID
		*t = *u
		t.docID = docID
	case *roleImpl:
		switch r := src.(type) {
		case *roleImpl:
			docID := t.docID
			*t = *r
			t.docID = docID
		case *userImpl:
			docID := t.docID
			*t = r.roleImpl
			t.docID = docID
		}
	default:
		vFail("harness codec: unmarshal into unsupported target type")
	}
	return nil
}

// vhGetPrincipal replaces (*Authenticator).getPrincipal in the engine: a reload returns a fresh copy of
// what the store holds (reload itself may fail).
func vhGetPrincipal(auth *Authenticator, docID string, factory func() Principal) (Principal, error) {
	s := auth.datastore.(*vhStore)
	if s.fail() {
		return nil, vhErrStore
	}
	d, ok := s.docs[docID]
	if !ok {
		return nil, nil
	}
	switch x := d.v.(type) {
	case *roleImpl:
		c := *x
		c.cas = d.cas
		return &c, nil
	case *userImpl:
		c := *x
		c.cas = d.cas
		return &c, nil
	}
	return nil, nil
}

func vhNewAuth(s *vhStore) *Authenticator {
	return &Authenticator{
		datastore: s,
		AuthenticatorOptions: AuthenticatorOptions{
			LogCtx:      context.Background(),
			MetaKeys:    base.DefaultMetadataKeys,
			Collections: map[string]map[string]struct{}{base.DefaultScope: {base.DefaultCollection: struct{}{}}},
		},
	}
}

func vhStoredRole(s *vhStore, docID string) *roleImpl {
	d, ok := s.docs[docID]
	if !ok {
		return nil
	}
	r, _ := d.v.(*roleImpl)
	return r
}

// ---- exported helpers for harnesses in other packages (db)

// VhNewAuthenticatorWithRole builds an authenticator over a fault-symbolic store holding role "r1".
func VhNewAuthenticatorWithRole(faults, interfere bool, interfereMax int) *Authenticator {
	s := vhNewStore(faults, interfere)
	s.interfereMax = interfereMax
	a := vhNewAuth(s)
	role := &roleImpl{Name_: "r1", docID: a.DocIDForRole("r1"), Sequence_: 1, ExplicitChannels_: nil}
	role.cas = s.nextCas()
	stored := *role
	s.docs[role.docID] = &vhDoc{v: &stored, cas: role.cas}
	return a
}

// VhNewAuthenticatorWithUser builds an authenticator over a fault-symbolic store holding user "u1" (with an email
// address, so that Save also writes the email index after the principal document).
func VhNewAuthenticatorWithUser(faults, interfere bool, interfereMax int) *Authenticator {
	s := vhNewStore(faults, interfere)
	s.interfereMax = interfereMax
	a := vhNewAuth(s)
	u := &userImpl{roleImpl: roleImpl{Name_: "u1", docID: a.DocIDForUser("u1"), Sequence_: 1}, userImplBody: userImplBody{Email_: "u1@example.com"}}
	u.cas = s.nextCas()
	stored := *u
	s.docs[u.docID] = &vhDoc{v: &stored, cas: u.cas}
	return a
}

// VhStoredUserSequence returns the sequence of the stored user "u1" and the store's counters.
func VhStoredUserSequence(a *Authenticator) (seq uint64, okWrites, failedOps int) {
	s := a.datastore.(*vhStore)
	if d, ok := s.docs[a.DocIDForUser("u1")]; ok {
		if u, ok := d.v.(*userImpl); ok {
			seq = u.Sequence_
		}
	}
	return seq, s.okWrites, s.failedOps
}

// VhValidEmail replaces IsValidEmail (a regular expression match) in the engine.
func VhValidEmail(email string) bool { return true }

// VhSetStoredRoleResyncID marks the stored role "r1" as already updated by the given resync.
func VhSetStoredRoleResyncID(a *Authenticator, id string) {
	s := a.datastore.(*vhStore)
	if r := vhStoredRole(s, a.DocIDForRole("r1")); r != nil {
		r.ResyncID_ = id
	}
}

// VhStoredRoleSequence returns the sequence of the stored role "r1" and the store's counters.
func VhStoredRoleSequence(a *Authenticator) (seq uint64, okWrites, failedOps int) {
	s := a.datastore.(*vhStore)
	if r := vhStoredRole(s, a.DocIDForRole("r1")); r != nil {
		seq = r.Sequence_
	}
	return seq, s.okWrites, s.failedOps
}

// VhGetPrincipal is the cross-package name of the getPrincipal replacement.
func VhGetPrincipal(auth *Authenticator, docID string, factory func() Principal) (Principal, error) {
	return vhGetPrincipal(auth, docID, factory)
}
