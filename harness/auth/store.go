//go:build verif

package auth

import (
	"context"
	"errors"

	sgbucket "github.com/couchbase/sg-bucket"
	"github.com/couchbase/sync_gateway/base"
)

// Harness key/value store: an in-memory model of the metadata store in which every operation first
// draws a symbolic outcome (success / generic storage error) and, between operations, "another node"
// may rewrite a document (new CAS, optionally marked deleted). A failed operation has no effect.
// Documents are kept as Go values (principal/session snapshots); the JSON codec is not exercised.

var vhErrStore = errors.New("verif: injected storage error")

type vhDoc struct {
	v   any
	cas uint64
}

type vhStore struct {
	base.DataStore
	docs         map[string]*vhDoc
	casCtr       uint64
	faults       bool
	interfere    bool
	okWrites     int
	failedOps    int
	deletes      int
	interfered   int
	interfereMax int // 0 = unbounded
}

func vhNewStore(faults, interfere bool) *vhStore {
	return &vhStore{docs: map[string]*vhDoc{}, casCtr: 100, faults: faults, interfere: interfere}
}

func (s *vhStore) nextCas() uint64 {
	s.casCtr++
	return s.casCtr
}

// vhSnapshot copies the persistent state of a principal or session at write time.
func vhSnapshot(v any) any {
	switch x := v.(type) {
	case *roleImpl:
		c := *x
		return &c
	case *userImpl:
		c := *x
		return &c
	case *LoginSession:
		c := *x
		return &c
	}
	return v
}

// otherNode models a concurrent writer: it may rewrite the stored principal between two of our operations.
func (s *vhStore) otherNode(k string) {
	if !s.interfere || (s.interfereMax > 0 && s.interfered >= s.interfereMax) {
		return
	}
	d, ok := s.docs[k]
	if !ok {
		return
	}
	if vNondetBool() {
		s.interfered++
		d.cas = s.nextCas()
		if r, ok := d.v.(*roleImpl); ok && vNondetBool() {
			c := *r
			c.Deleted = true
			d.v = &c
		}
	}
}

func (s *vhStore) fail() bool {
	if s.faults && vNondetBool() {
		s.failedOps++
		return true
	}
	return false
}

func (s *vhStore) WriteCas(ctx context.Context, k string, exp uint32, cas uint64, v any, opt sgbucket.WriteOptions) (uint64, error) {
	s.otherNode(k)
	if s.fail() {
		return 0, vhErrStore
	}
	d, ok := s.docs[k]
	if !ok {
		if cas != 0 {
			return 0, sgbucket.MissingError{Key: k}
		}
		d = &vhDoc{}
		s.docs[k] = d
	} else if cas != d.cas {
		return 0, sgbucket.CasMismatchErr{Expected: cas, Actual: d.cas}
	}
	d.v = vhSnapshot(v)
	d.cas = s.nextCas()
	s.okWrites++
	return d.cas, nil
}

func (s *vhStore) Set(ctx context.Context, k string, exp uint32, opts *sgbucket.UpsertOptions, v any) error {
	if s.fail() {
		return vhErrStore
	}
	s.docs[k] = &vhDoc{v: vhSnapshot(v), cas: s.nextCas()}
	s.okWrites++
	return nil
}

func (s *vhStore) Delete(ctx context.Context, k string) error {
	if s.fail() {
		return vhErrStore
	}
	if _, ok := s.docs[k]; !ok {
		return sgbucket.MissingError{Key: k}
	}
	delete(s.docs, k)
	s.deletes++
	s.okWrites++
	return nil
}

func (s *vhStore) Get(ctx context.Context, k string, rv any) (uint64, error) {
	if s.fail() {
		return 0, vhErrStore
	}
	d, ok := s.docs[k]
	if !ok {
		return 0, sgbucket.MissingError{Key: k}
	}
	switch t := rv.(type) {
	case *LoginSession:
		*t = *(d.v.(*LoginSession))
	default:
		vFail("harness store: Get into unsupported target type")
	}
	return d.cas, nil
}

// Update is only reached natively (replay): the engine redirects getPrincipal to vhGetPrincipal instead.
func (s *vhStore) Update(ctx context.Context, k string, exp uint32, callback sgbucket.UpdateFunc) (uint64, error) {
	if s.fail() { // same draw as vhGetPrincipal, so replay values line up
		return 0, vhErrStore
	}
	d, ok := s.docs[k]
	var cur []byte
	if ok {
		var err error
		cur, err = base.JSONMarshal(d.v)
		if err != nil {
			return 0, err
		}
	}
	_, _, _, err := callback(cur)
	if err != nil {
		return 0, err
	}
	if ok {
		return d.cas, nil
	}
	return 0, nil
}

// vhGetPrincipal replaces (*Authenticator).getPrincipal in the engine: a reload returns a fresh copy of
// what the store holds (reload itself may fail).
func vhGetPrincipal(auth *Authenticator, docID string, factory func() Principal) (Principal, error) {
	s := auth.datastore.(*vhStore)
	if s.fail() {
		return nil, vhErrStore
	}
	d, ok := s.docs[docID]
	if !ok {
		return nil, nil
	}
	switch x := d.v.(type) {
	case *roleImpl:
		c := *x
		c.cas = d.cas
		return &c, nil
	case *userImpl:
		c := *x
		c.cas = d.cas
		return &c, nil
	}
	return nil, nil
}

func vhNewAuth(s *vhStore) *Authenticator {
	return &Authenticator{
		datastore: s,
		AuthenticatorOptions: AuthenticatorOptions{
			LogCtx:      context.Background(),
			MetaKeys:    base.DefaultMetadataKeys,
			Collections: map[string]map[string]struct{}{base.DefaultScope: {base.DefaultCollection: struct{}{}}},
		},
	}
}

func vhStoredRole(s *vhStore, docID string) *roleImpl {
	d, ok := s.docs[docID]
	if !ok {
		return nil
	}
	r, _ := d.v.(*roleImpl)
	return r
}

// ---- exported helpers for harnesses in other packages (db)

// VhNewAuthenticatorWithRole builds an authenticator over a fault-symbolic store holding role "r1".
func VhNewAuthenticatorWithRole(faults, interfere bool, interfereMax int) *Authenticator {
	s := vhNewStore(faults, interfere)
	s.interfereMax = interfereMax
	a := vhNewAuth(s)
	role := &roleImpl{Name_: "r1", docID: a.DocIDForRole("r1"), Sequence_: 1, ExplicitChannels_: nil}
	role.cas = s.nextCas()
	stored := *role
	s.docs[role.docID] = &vhDoc{v: &stored, cas: role.cas}
	return a
}

// VhNewAuthenticatorWithUser builds an authenticator over a fault-symbolic store holding user "u1" (with an email
// address, so that Save also writes the email index after the principal document).
func VhNewAuthenticatorWithUser(faults, interfere bool, interfereMax int) *Authenticator {
	s := vhNewStore(faults, interfere)
	s.interfereMax = interfereMax
	a := vhNewAuth(s)
	u := &userImpl{roleImpl: roleImpl{Name_: "u1", docID: a.DocIDForUser("u1"), Sequence_: 1}, userImplBody: userImplBody{Email_: "u1@example.com"}}
	u.cas = s.nextCas()
	stored := *u
	s.docs[u.docID] = &vhDoc{v: &stored, cas: u.cas}
	return a
}

// VhStoredUserSequence returns the sequence of the stored user "u1" and the store's counters.
func VhStoredUserSequence(a *Authenticator) (seq uint64, okWrites, failedOps int) {
	s := a.datastore.(*vhStore)
	if d, ok := s.docs[a.DocIDForUser("u1")]; ok {
		if u, ok := d.v.(*userImpl); ok {
			seq = u.Sequence_
		}
	}
	return seq, s.okWrites, s.failedOps
}

// VhValidEmail replaces IsValidEmail (a regular expression match) in the engine.
func VhValidEmail(email string) bool { return true }

// VhStoredRoleSequence returns the sequence of the stored role "r1" and the store's counters.
func VhStoredRoleSequence(a *Authenticator) (seq uint64, okWrites, failedOps int) {
	s := a.datastore.(*vhStore)
	if r := vhStoredRole(s, a.DocIDForRole("r1")); r != nil {
		seq = r.Sequence_
	}
	return seq, s.okWrites, s.failedOps
}

// VhGetPrincipal is the cross-package name of the getPrincipal replacement.
func VhGetPrincipal(auth *Authenticator, docID string, factory func() Principal) (Principal, error) {
	return vhGetPrincipal(auth, docID, factory)
}
