//go:build verif

package auth

import (
	"context"

	"github.com/couchbase/sync_gateway/base"
	ch "github.com/couchbase/sync_gateway/channels"
)

// C03 — effective access = admin grants ∪ document grants ∪ public ∪ roles.

var vhChans = [2]string{"A", "B"}

// vhNondetTimedSet: symbolic membership over {A,B}, symbolic positive grant sequences, no vbucket numbers.
func vhNondetTimedSet(allowNil bool) ch.TimedSet {
	if allowNil && vNondetBool() {
		return nil
	}
	s := ch.TimedSet{}
	for _, c := range vhChans {
		if vNondetBool() {
			q := vNondetU64()
			vAssume(q >= 1)
			s[c] = ch.NewVbSimpleSequence(q)
		}
	}
	return s
}

type vhComputer struct {
	channels ch.TimedSet
	roles    ch.TimedSet
	fail     bool
}

func (c *vhComputer) ComputeChannelsForPrincipal(ctx context.Context, p Principal, scope, collection string) (ch.TimedSet, error) {
	if c.fail {
		return nil, vhErrStore
	}
	return c.channels.Copy(), nil
}

func (c *vhComputer) ComputeRolesForUser(ctx context.Context, u User) (ch.TimedSet, error) {
	if c.fail {
		return nil, vhErrStore
	}
	return c.roles.Copy(), nil
}

// vhExpectUnion: result = union of the sources (plus the public channel), each channel at the minimum sequence.
func vhExpectUnion(got ch.TimedSet, tag string, withPublic bool, sources ...ch.TimedSet) {
	for _, c := range vhChans {
		var min uint64
		for _, s := range sources {
			if e, ok := s[c]; ok && (min == 0 || e.Sequence < min) {
				min = e.Sequence
			}
		}
		e, ok := got[c]
		if min == 0 {
			vAssert(!ok, tag+": a channel no source grants is not granted")
		} else {
			vAssert(ok, tag+": a channel granted by some source is granted")
			vAssert(e.Sequence == min, tag+": a channel is granted since the earliest contributing sequence")
		}
	}
	p, ok := got[ch.DocumentPublicChannel]
	if withPublic {
		vAssert(ok && p.Sequence == 1, tag+": the public channel is always granted (since sequence 1)")
		vAssert(len(got) <= len(vhChans)+1, tag+": nothing else is granted")
	} else {
		vAssert(!ok, tag+": no public entry here")
	}
}

// VHarness_C03_RebuildChannels: rebuildCollectionChannels for a role and for a user (with JWT grants).
func VHarness_C03_RebuildChannels() {
	a := vhNewAuth(vhNewStore(false, false))
	comp := &vhComputer{channels: vhNondetTimedSet(false)}
	a.channelComputer = comp
	explicit := vhNondetTimedSet(false)
	old := vhNondetTimedSet(true)
	invalSeq := vNondetU64()
	if vNondetBool() {
		r := &roleImpl{Name_: "r1", ExplicitChannels_: explicit.Copy(), Channels_: old, ChannelInvalSeq: invalSeq}
		err := a.rebuildCollectionChannels(r, base.DefaultScope, base.DefaultCollection)
		vAssert(err == nil, "rebuild succeeds")
		vAssert(r.ChannelInvalSeq == 0, "rebuild clears the invalidation marker")
		vhExpectUnion(r.Channels_, "role", true, explicit, comp.channels)
		vhExpectUnion(r.ExplicitChannels_, "role explicit grants unchanged", false, explicit)
	} else {
		jwt := vhNondetTimedSet(true)
		u := &userImpl{auth: a}
		u.Name_ = "u1"
		u.ExplicitChannels_ = explicit.Copy()
		u.Channels_ = old
		u.ChannelInvalSeq = invalSeq
		u.JWTChannels_ = jwt
		err := a.rebuildCollectionChannels(u, base.DefaultScope, base.DefaultCollection)
		vAssert(err == nil, "rebuild succeeds")
		vAssert(u.ChannelInvalSeq == 0, "rebuild clears the invalidation marker")
		vhExpectUnion(u.Channels_, "user", true, explicit, comp.channels, jwt)
	}
}

// VHarness_C03_RebuildRoles: a user's roles = explicit ∪ document-granted ∪ JWT.
func VHarness_C03_RebuildRoles() {
	a := vhNewAuth(vhNewStore(false, false))
	comp := &vhComputer{roles: vhNondetTimedSet(true)}
	a.channelComputer = comp
	explicit := vhNondetTimedSet(true)
	jwt := vhNondetTimedSet(true)
	u := &userImpl{auth: a}
	u.Name_ = "u1"
	u.ExplicitRoles_ = explicit.Copy()
	u.JWTRoles_ = jwt
	u.RolesSince_ = vhNondetTimedSet(true)
	u.RoleInvalSeq = vNondetU64()
	err := a.RebuildRoles(u)
	vAssert(err == nil, "RebuildRoles succeeds")
	vAssert(u.RoleInvalSeq == 0, "RebuildRoles clears the invalidation marker")
	vAssert(u.RolesSince_ != nil, "roles are known after a rebuild")
	vhExpectUnion(u.RolesSince_, "roles", false, explicit, comp.roles, jwt)
}

// VHarness_C03_Inherited: a user's effective channels = own ∪ every (non-deleted) role's channels, a role's
// channel counting from the later of the role grant and the role's own grant.
func VHarness_C03_Inherited() {
	a := vhNewAuth(vhNewStore(false, false))
	own := vhNondetTimedSet(false)
	u := &userImpl{auth: a}
	u.Name_ = "u1"
	u.Channels_ = own
	nroles := vNondetRange(0, 2)
	roleNames := [2]string{"r1", "r2"}
	var roleSets [2]ch.TimedSet
	var roleSince [2]uint64
	u.RolesSince_ = ch.TimedSet{}
	roles := make([]Role, 0, 2)
	for i := 0; i < nroles; i++ {
		roleSets[i] = vhNondetTimedSet(false)
		q := vNondetU64()
		vAssume(q >= 1)
		roleSince[i] = q
		u.RolesSince_[roleNames[i]] = ch.NewVbSimpleSequence(q)
		roles = append(roles, &roleImpl{Name_: roleNames[i], Channels_: roleSets[i]})
	}
	u.roles = roles
	vMapOrder(3)
	got, err := u.InheritedCollectionChannels(base.DefaultScope, base.DefaultCollection)
	vMapOrder(0)
	vAssert(err == nil, "InheritedCollectionChannels succeeds")
	for _, c := range vhChans {
		var min uint64
		if e, ok := own[c]; ok {
			min = e.Sequence
		}
		for i := 0; i < nroles; i++ {
			if e, ok := roleSets[i][c]; ok {
				q := e.Sequence
				if roleSince[i] > q {
					q = roleSince[i]
				}
				if min == 0 || q < min {
					min = q
				}
			}
		}
		e, ok := got[c]
		if min == 0 {
			vAssert(!ok, "inherited: a channel held neither directly nor through a role is not granted")
		} else {
			vAssert(ok, "inherited: a channel held directly or through a role is granted")
			vAssert(e.Sequence == min, "inherited: granted since the earliest moment the user effectively had it")
		}
	}
	vAssert(len(own) == len(u.Channels_), "inherited: the user's own set is not modified")
}
