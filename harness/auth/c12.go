//go:build verif

package auth

import (
	"context"

	"golang.org/x/crypto/bcrypt"
)

// C12 — only valid credentials and live sessions authenticate.

// vhBcryptOK is the full password check (in the engine: an uninterpreted predicate of hash and password).
func vhBcryptOK(hash, pw []byte) bool {
	return bcrypt.CompareHashAndPassword(hash, pw) == nil
}

// VHarness_C12_PasswordCache: the verified-password fast path never accepts more than the full check.
// Pre-state: a cache holding up to 2 keys that got there the only legal way (a pair that passed the
// full check); one compareHashAndPassword with an arbitrary (hash, password); eviction included.
func VHarness_C12_PasswordCache() {
	size := vNondetRange(1, 2)
	cache := NewRandReplKeyCache(size)
	m := vNondetRange(0, size)
	var oldKeys []string
	for i := 0; i < m; i++ {
		p := vNondetBytes(vNondetRange(0, vParam("pwlen", 1)))
		h, herr := bcrypt.GenerateFromPassword(p, bcrypt.MinCost) // a pair that passes the full check
		vAssume(herr == nil)
		k := authKey(h, p)
		cache.Put(k)
		oldKeys = append(oldKeys, k)
	}
	hash := vNondetBytes(vNondetRange(1, 2))
	pw := vNondetBytes(vNondetRange(0, vParam("pwlen", 1)))
	ok := compareHashAndPassword(cache, hash, pw)
	full := vhBcryptOK(hash, pw)
	if ok {
		vCover("accepted")
		vAssert(full, "fast path accepted a password the full check rejects")
	} else {
		vAssert(!full, "a password the full check accepts was rejected")
	}
	// representation invariant afterwards: only verified pairs are cached
	newKey := authKey(hash, pw)
	for k := range cache.cache {
		known := false
		for _, o := range oldKeys {
			if o == k {
				known = true
			}
		}
		if k == newKey {
			vAssert(full || known, "a failed password check was cached")
		} else {
			vAssert(known, "cache holds a key that was never verified")
		}
	}
	vAssert(len(cache.cache) <= size, "cache within its size")
}

// VHarness_C12_UserGate: userImpl.AuthenticateWithReason.
func VHarness_C12_UserGate() {
	a := vhNewAuth(vhNewStore(false, false))
	u := &userImpl{auth: a}
	u.Name_ = "u1"
	u.Disabled_ = vNondetBool()
	if vNondetBool() {
		u.OldPasswordHash_ = "legacy"
	}
	hasHash := vNondetBool()
	if hasHash {
		u.PasswordHash_ = vNondetBytes(vNondetRange(1, 2))
	}
	pw := vNondetString(vNondetRange(0, vParam("pwlen", 1)))
	ok, _ := u.AuthenticateWithReason(pw)
	if ok {
		vCover("user-authenticated")
		vAssert(!u.Disabled_, "disabled user authenticated")
		vAssert(u.OldPasswordHash_ == nil, "user with legacy hash authenticated")
		if hasHash {
			vAssert(vhBcryptOK(u.PasswordHash_, []byte(pw)), "wrong password authenticated")
		} else {
			vAssert(pw == "", "password accepted for a user without a password hash")
		}
	}
	var nilUser *userImpl
	ok2, _ := nilUser.AuthenticateWithReason(pw)
	vAssert(!ok2, "nil user never authenticates")
}

// VHarness_C12_Session: GetSession / AuthenticateOneTimeSession return a user only for an existing
// session document that names an existing user whose session UUID matches.
func VHarness_C12_Session() {
	s := vhNewStore(vParam("faults", 1) == 1, false)
	a := vhNewAuth(s)
	userExists := vNondetBool()
	uuidMatches := vNondetBool()
	sessionExists := vNondetBool()
	oneTime := vNondetBool()
	if userExists {
		u := &userImpl{}
		u.Name_ = "u1"
		u.docID = a.DocIDForUser("u1")
		u.SessionUUID_ = "uuid-now"
		s.docs[u.docID] = &vhDoc{v: u, cas: s.nextCas()}
	}
	if sessionExists {
		sess := &LoginSession{ID: "sid", Username: "u1", SessionUUID: "uuid-old"}
		if uuidMatches {
			sess.SessionUUID = "uuid-now"
		}
		if oneTime {
			t := true
			sess.OneTime = &t
		}
		s.docs[a.DocIDForSession("sid")] = &vhDoc{v: sess, cas: s.nextCas()}
	}
	valid := userExists && uuidMatches && sessionExists
	if vNondetBool() {
		_, user, err := a.GetSession("sid")
		if err == nil {
			vCover("get-session-ok")
			vAssert(valid && user != nil && user.Name() == "u1", "GetSession returned a user for an invalid session")
		} else {
			vAssert(user == nil, "GetSession error carries no user")
		}
		if s.failedOps == 0 && valid {
			vAssert(err == nil, "valid session is accepted")
		}
		return
	}
	user, err := a.AuthenticateOneTimeSession(context.Background(), "sid")
	_, still := s.docs[a.DocIDForSession("sid")]
	if err == nil && user != nil {
		vCover("one-time-ok")
		vAssert(valid, "AuthenticateOneTimeSession returned a user for an invalid session")
		if oneTime {
			vAssert(!still, "a one-time session authenticated without being consumed")
			// presenting it again must fail
			user2, err2 := a.AuthenticateOneTimeSession(context.Background(), "sid")
			vAssert(err2 != nil && user2 == nil, "one-time session authenticated twice")
		}
	} else {
		vAssert(user == nil, "failed authentication returns no user")
	}
}

// VHarness_C12_PasswordChange: changing the password invalidates every previously issued session.
func VHarness_C12_PasswordChange() {
	s := vhNewStore(false, false)
	a := vhNewAuth(s)
	u := &userImpl{auth: a}
	u.Name_ = "u1"
	u.docID = a.DocIDForUser("u1")
	u.SessionUUID_ = "uuid-0"
	stored := *u
	s.docs[u.docID] = &vhDoc{v: &stored, cas: s.nextCas()}
	sess := &LoginSession{ID: "sid", Username: "u1", SessionUUID: "uuid-0"}
	s.docs[a.DocIDForSession("sid")] = &vhDoc{v: sess, cas: s.nextCas()}
	_, before, err := a.GetSession("sid")
	vAssert(err == nil && before != nil, "session valid before the password change")
	pw := vNondetString(vNondetRange(0, 1))
	vAssert(u.SetPassword(pw) == nil, "SetPassword ok")
	u.cas = s.docs[u.docID].cas
	vAssert(a.Save(u) == nil, "Save ok")
	_, after, err2 := a.GetSession("sid")
	vAssert(err2 != nil && after == nil, "session issued before a password change still authenticates")
}

// VHarness_C12_Rehash: the best-effort re-hash of a just-verified password at a new bcrypt cost never brings back a
// password that another node has changed in the meantime (the re-hash's write loses a compare-and-swap race).
func VHarness_C12_Rehash() {
	s := vhNewStore(vParam("faults", 1) == 1, true)
	s.interfereMax = 1
	a := vhNewAuth(s)
	a.BcryptCost = 12
	a.bcryptCostChanged = true
	oldPw := "o" + vNondetString(1)
	newPw := "n" + vNondetString(1)
	// stored user: password oldPw hashed at an older cost
	a.BcryptCost = 10
	u := &userImpl{auth: a}
	u.Name_ = "u1"
	u.docID = a.DocIDForUser("u1")
	vAssert(u.SetPassword(oldPw) == nil, "SetPassword ok")
	a.BcryptCost = 12
	stored := *u
	s.docs[u.docID] = &vhDoc{v: &stored, cas: s.nextCas()}
	var otherHash []byte
	s.onInterfere = func(d *vhDoc) {
		// the other node changes the user's password (hashing at the configured cost)
		if cur, ok := d.v.(*userImpl); ok {
			c := *cur
			c.auth = a
			vAssert(c.SetPassword(newPw) == nil, "other node: SetPassword ok")
			otherHash = c.PasswordHash_
			d.v = &c
		}
	}
	loaded, err := a.GetUser("u1")
	if err != nil || loaded == nil {
		return
	}
	_ = a.rehashPassword(loaded, oldPw)
	d := s.docs[u.docID]
	now := d.v.(*userImpl)
	if s.interfered > 0 {
		vCover("password-changed-meanwhile")
		vAssert(string(now.PasswordHash_) == string(otherHash), "a password changed by another node is not overwritten by the re-hash of the old password")
	} else if s.okWrites > 0 {
		vCover("rehashed")
		cost, cerr := bcrypt.Cost(now.PasswordHash_)
		vAssert(cerr == nil && cost == 12, "the re-hashed password has the configured cost")
		vAssert(bcrypt.CompareHashAndPassword(now.PasswordHash_, []byte(oldPw)) == nil, "the re-hash is of the verified password")
	}
}
