//go:build verif

package auth

import (
	"github.com/couchbase/sync_gateway/base"
	ch "github.com/couchbase/sync_gateway/channels"
)

// C02 — the read gate: a principal is authorised for a revision only through a channel it holds (directly or
// via a role) or through the '*' wildcard; an invalidated channel list grants nothing.

var vhUniverse = [3]string{"A", "B", ch.UserStarChannel}

type vhHolder struct {
	has   [3]bool // membership of A, B, *
	inval bool    // channel list invalidated (must count as holding nothing)
}

func vhNondetHolder() (vhHolder, ch.TimedSet, uint64) {
	var h vhHolder
	set := ch.TimedSet{}
	for i, c := range vhUniverse {
		if vNondetBool() {
			h.has[i] = true
			set[c] = ch.NewVbSimpleSequence(1)
		}
	}
	var inval uint64
	if vNondetBool() {
		h.inval = true
		inval = vNondetU64()
		vAssume(inval != 0)
	}
	return h, set, inval
}

func (h vhHolder) holds(i int) bool { return !h.inval && h.has[i] }

// VHarness_C02_Gate: AuthorizeAnyCollectionChannel (default and named collection) against the specification.
func VHarness_C02_Gate() {
	a := vhNewAuth(vhNewStore(false, false))
	named := vNondetBool()
	scope, coll := base.DefaultScope, base.DefaultCollection
	if named {
		scope, coll = "s1", "c1"
	}
	u := &userImpl{auth: a}
	u.Name_ = "u1"
	uh, uset, uinval := vhNondetHolder()
	if named {
		u.CollectionsAccess = map[string]map[string]*CollectionAccess{scope: {coll: &CollectionAccess{Channels_: uset, ChannelInvalSeq: uinval}}}
	} else {
		u.Channels_ = uset
		u.ChannelInvalSeq = uinval
	}
	nroles := vNondetRange(0, vParam("roles", 1))
	var rh [2]vhHolder
	roles := make([]Role, 0, 2)
	u.RolesSince_ = ch.TimedSet{}
	names := [2]string{"r1", "r2"}
	for i := 0; i < nroles; i++ {
		h, set, inval := vhNondetHolder()
		rh[i] = h
		r := &roleImpl{Name_: names[i]}
		if named {
			r.CollectionsAccess = map[string]map[string]*CollectionAccess{scope: {coll: &CollectionAccess{Channels_: set, ChannelInvalSeq: inval}}}
		} else {
			r.Channels_ = set
			r.ChannelInvalSeq = inval
		}
		roles = append(roles, r)
		u.RolesSince_[names[i]] = ch.NewVbSimpleSequence(1)
	}
	u.roles = roles
	// the revision's channel set: any subset of {A, B}
	var in [2]bool
	docChans := base.Set{}
	for i := 0; i < 2; i++ {
		if vNondetBool() {
			in[i] = true
			docChans[vhUniverse[i]] = struct{}{}
		}
	}
	vMapOrder(3)
	err := u.AuthorizeAnyCollectionChannel(scope, coll, docChans)
	vMapOrder(0)
	// specification
	star := uh.holds(2)
	direct := false
	for i := 0; i < 2; i++ {
		if in[i] && uh.holds(i) {
			direct = true
		}
	}
	viaRole := false
	roleStar := false
	for r := 0; r < nroles; r++ {
		if rh[r].holds(2) {
			roleStar = true
		}
		for i := 0; i < 2; i++ {
			if in[i] && rh[r].holds(i) {
				viaRole = true
			}
		}
	}
	empty := !in[0] && !in[1]
	maySee := direct || viaRole || star || roleStar
	mustSee := !empty && (direct || viaRole || star || roleStar)
	if err == nil {
		vCover("authorised")
		vAssert(maySee, "authorised although the user holds none of the revision's channels and no wildcard (directly or via a role)")
	} else {
		vCover("denied")
		vAssert(!mustSee, "denied although the user holds one of the revision's channels or the wildcard")
	}
	// a user whose only access is invalidated sees nothing
	if uh.inval && nroles == 0 {
		vAssert(err != nil, "an invalidated channel list grants nothing")
	}
}

// VHarness_C02_AllChannels: authorizeAllChannels requires every channel.
func VHarness_C02_AllChannels() {
	h, set, inval := vhNondetHolder()
	r := &roleImpl{Name_: "r1", Channels_: set, ChannelInvalSeq: inval}
	var in [2]bool
	want := base.Set{}
	for i := 0; i < 2; i++ {
		if vNondetBool() {
			in[i] = true
			want[vhUniverse[i]] = struct{}{}
		}
	}
	err := r.authorizeAllChannels(want)
	all := true
	for i := 0; i < 2; i++ {
		if in[i] && !(h.holds(i) || h.holds(2)) {
			all = false
		}
	}
	vAssert((err == nil) == all, "authorizeAllChannels succeeds exactly when every requested channel is held (or the wildcard)")
}
