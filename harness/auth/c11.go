//go:build verif

package auth

import (
	"context"
	"time"
)

// C11 — no storage failure is swallowed and turned into a success; a failed operation changes nothing.

// VHarness_C11_DeleteRole: soft delete of a role through casUpdatePrincipal, every storage outcome.
func VHarness_C11_DeleteRole() {
	s := vhNewStore(true, vParam("interfere", 1) == 1)
	a := vhNewAuth(s)
	role := &roleImpl{Name_: "r1", docID: a.DocIDForRole("r1"), Sequence_: 5}
	role.cas = s.nextCas()
	stored := *role
	s.docs[role.docID] = &vhDoc{v: &stored, cas: role.cas}
	deleteSeq := vNondetU64()
	err := a.DeleteRole(role, false, deleteSeq)
	now := vhStoredRole(s, role.docID)
	if err == nil {
		vCover("delete-role-nil")
		vAssert(now != nil && now.Deleted, "DeleteRole reported success but the stored role is not deleted")
	} else {
		vCover("delete-role-error")
		if s.okWrites == 0 && s.interfered == 0 {
			vAssert(now != nil && !now.Deleted && now.Sequence_ == 5, "failed DeleteRole left the role unchanged")
		}
	}
	if s.failedOps == 0 && s.interfered == 0 {
		vAssert(err == nil, "DeleteRole succeeds without faults")
	}
}

// VHarness_C11_PurgeRole / DeleteUser: hard deletes.
func VHarness_C11_PurgeRole() {
	s := vhNewStore(true, false)
	a := vhNewAuth(s)
	role := &roleImpl{Name_: "r1", docID: a.DocIDForRole("r1")}
	if vNondetBool() {
		stored := *role
		s.docs[role.docID] = &vhDoc{v: &stored, cas: s.nextCas()}
	}
	err := a.DeleteRole(role, true, 0)
	_, present := s.docs[role.docID]
	if err == nil {
		vAssert(!present, "purge reported success but the role document still exists")
	}
}

// VHarness_C11_SaveRole: Save of a role (CAS-safe write), every outcome.
func VHarness_C11_SaveRole() {
	s := vhNewStore(true, true)
	a := vhNewAuth(s)
	role := &roleImpl{Name_: "r1", docID: a.DocIDForRole("r1"), Sequence_: 5}
	existed := vNondetBool()
	if existed {
		role.cas = s.nextCas()
		stored := *role
		s.docs[role.docID] = &vhDoc{v: &stored, cas: role.cas}
	}
	newSeq := vNondetU64()
	role.Sequence_ = newSeq
	err := a.Save(role)
	now := vhStoredRole(s, role.docID)
	if err == nil {
		vAssert(now != nil && now.Sequence_ == newSeq, "Save reported success but the stored role is not the saved one")
		vAssert(role.cas == s.docs[role.docID].cas, "Save records the new CAS on the principal")
	} else if s.interfered == 0 {
		if existed {
			vAssert(now != nil && now.Sequence_ == 5, "failed Save left the stored role unchanged")
		} else {
			vAssert(now == nil, "failed Save did not create the role")
		}
	}
}

// VHarness_C11_ResyncSeq: UpdateSequenceNumberForResync.
func VHarness_C11_ResyncSeq() {
	s := vhNewStore(true, true)
	a := vhNewAuth(s)
	role := &roleImpl{Name_: "r1", docID: a.DocIDForRole("r1"), Sequence_: 5, ResyncID_: "old"}
	role.cas = s.nextCas()
	stored := *role
	s.docs[role.docID] = &vhDoc{v: &stored, cas: role.cas}
	seq := vNondetU64()
	err := a.UpdateSequenceNumberForResync(role, seq, "new")
	now := vhStoredRole(s, role.docID)
	if err == nil {
		vAssert(now.Sequence_ == seq && now.ResyncID_ == "new", "resync sequence update reported success but is not stored")
	} else if s.interfered == 0 {
		vAssert(now.Sequence_ == 5 && now.ResyncID_ == "old", "failed resync sequence update left the stored role unchanged")
	}
}

// VHarness_C11_Sessions: create / get-by-store / delete of sessions under faults.
func VHarness_C11_Sessions() {
	s := vhNewStore(true, false)
	a := vhNewAuth(s)
	user := &userImpl{roleImpl: roleImpl{Name_: "u1", docID: a.DocIDForUser("u1")}}
	user.SessionUUID_ = "uuid-1"
	sess, err := a.CreateSession(context.Background(), user, time.Hour, vNondetBool())
	if err == nil {
		vCover("session-created")
		d, ok := s.docs[a.DocIDForSession(sess.ID)]
		vAssert(ok, "CreateSession reported success but no session document exists")
		if ok {
			st := d.v.(*LoginSession)
			vAssert(st.Username == "u1" && st.SessionUUID == "uuid-1", "stored session names the user and its session UUID")
		}
		derr := a.DeleteSession(context.Background(), sess.ID, "u1")
		_, still := s.docs[a.DocIDForSession(sess.ID)]
		if derr == nil {
			vAssert(!still, "DeleteSession reported success but the session document still exists")
		}
	} else {
		vAssert(len(s.docs) == 0, "failed CreateSession stored nothing")
	}
}
