//go:build verif

package auth

import (
	"github.com/couchbase/sync_gateway/base"
	ch "github.com/couchbase/sync_gateway/channels"
)

// C18 / C03 — invalidation of a principal's computed access (the last step of a resync, and the way a document's
// access grants reach principals): afterwards nothing computed earlier is still taken as valid for the named
// collections (and roles), whatever had already been invalidated before; nothing else about the principal changes.

var vhInvalColls = base.ScopeAndCollectionNames{base.DefaultScopeAndCollectionName(), base.NewScopeAndCollectionName("s1", "c1"), base.NewScopeAndCollectionName(base.DefaultScope, "c2")}

func vhNondetNamedSet(name string) ch.TimedSet {
	if vNondetBool() {
		return nil
	}
	return ch.TimedSet{name: ch.NewVbSimpleSequence(1)}
}

// vhNondetStoredUser: user "u1" with arbitrary computed state: channels of the default and of one named collection
// present or not, each valid or already invalidated; roles present or not, valid or already invalidated.
func vhNondetStoredUser(a *Authenticator, s *vhStore) *userImpl {
	u := &userImpl{roleImpl: roleImpl{Name_: "u1", Sequence_: 1, ExplicitChannels_: ch.TimedSet{"adm": ch.NewVbSimpleSequence(1)}}}
	u.Channels_ = vhNondetNamedSet("A")
	if vNondetBool() {
		u.ChannelInvalSeq = vNondetU64()
		vAssume(u.ChannelInvalSeq > 0)
	}
	for _, sc := range vhInvalColls[1:] {
		if vNondetBool() {
			ca := &CollectionAccess{Channels_: vhNondetNamedSet("B")}
			if vNondetBool() {
				ca.ChannelInvalSeq = vNondetU64()
				vAssume(ca.ChannelInvalSeq > 0)
			}
			if u.CollectionsAccess == nil {
				u.CollectionsAccess = map[string]map[string]*CollectionAccess{}
			}
			if u.CollectionsAccess[sc.ScopeName()] == nil {
				u.CollectionsAccess[sc.ScopeName()] = map[string]*CollectionAccess{}
			}
			u.CollectionsAccess[sc.ScopeName()][sc.CollectionName()] = ca
		}
	}
	u.RolesSince_ = vhNondetNamedSet("r1")
	if vNondetBool() {
		u.RoleInvalSeq = vNondetU64()
		vAssume(u.RoleInvalSeq > 0)
	}
	s.docs[a.DocIDForUser("u1")] = &vhDoc{v: u, cas: s.nextCas()}
	return u
}

func vhStoredUserNow(a *Authenticator, s *vhStore) *userImpl {
	d, ok := s.docs[a.DocIDForUser("u1")]
	if !ok {
		return nil
	}
	u, _ := d.v.(*userImpl)
	return u
}

// VHarness_C18_InvalidatePrincipal: one of the invalidation entry points on a user in an arbitrary computed state.
func VHarness_C18_InvalidatePrincipal() {
	s := vhNewStore(vParam("faults", 1) == 1, false)
	s.commitUpdates = true
	a := vhNewAuth(s)
	pre := vhDeepSnapshot(vhNondetStoredUser(a, s)).(*userImpl)
	inval := vNondetU64()
	vAssume(inval > 0)
	which := vNondetRange(0, 5)
	var err error
	colls := vhInvalColls
	switch which {
	case 3: // single collection: sub-document path
		colls = vhInvalColls[:1]
		err = a.InvalidateDefaultChannels("u1", true, inval)
	case 4:
		colls = vhInvalColls[1:2]
		err = a.InvalidateChannels("u1", true, colls, inval)
	case 5: // a named collection in the default scope
		colls = vhInvalColls[2:]
		err = a.InvalidateChannels("u1", true, colls, inval)
	case 0:
		err = a.InvalidateRolesAndChannels("u1", colls, inval)
	case 1:
		err = a.InvalidateChannels("u1", true, colls, inval)
	case 2:
		err = a.InvalidateRoles("u1", inval)
	}
	post := vhStoredUserNow(a, s)
	vAssert(post != nil, "the user still exists")
	if post == nil {
		return
	}
	if err != nil {
		vCover("invalidate-failed")
		vAssert(s.failedOps > 0, "invalidation fails only when the store fails")
		return
	}
	vCover("invalidated")
	if which != 2 {
		for _, c := range colls {
			vAssert(post.CollectionChannels(c.ScopeName(), c.CollectionName()) == nil, "after invalidation no earlier computed channels of a named collection are still valid")
		}
	}
	if which == 0 || which == 2 {
		vAssert(post.RoleNames() == nil, "after invalidation no earlier computed roles are still valid")
	}
	// collections that were not named keep their state
	for _, c := range vhInvalColls {
		named := false
		for _, n := range colls {
			if n == c {
				named = true
			}
		}
		if !named || which == 2 {
			vAssert((post.CollectionChannels(c.ScopeName(), c.CollectionName()) == nil) == (pre.CollectionChannels(c.ScopeName(), c.CollectionName()) == nil), "a collection that was not named keeps its computed channels")
		}
	}
	// what was already invalid stays invalid
	if pre.ChannelInvalSeq != 0 {
		vAssert(post.ChannelInvalSeq != 0, "an earlier channel invalidation is not undone")
	}
	if pre.RoleInvalSeq != 0 {
		vAssert(post.RoleInvalSeq != 0, "an earlier role invalidation is not undone")
	}
	// nothing else changes
	vAssert(post.Name_ == pre.Name_ && post.Sequence_ == pre.Sequence_, "identity and sequence are untouched")
	_, adm := post.ExplicitChannels_["adm"]
	vAssert(adm && len(post.ExplicitChannels_) == 1, "admin grants are untouched")
	vAssert(len(post.Channels_) == len(pre.Channels_) && len(post.RolesSince_) == len(pre.RolesSince_), "the computed data is kept for history calculation")
}
