//go:build verif

package rest

import (
	"context"
	"errors"

	sgbucket "github.com/couchbase/sg-bucket"
	"github.com/couchbase/sync_gateway/base"
)

// C15 — the persistence protocol of config_manager.go (InsertConfig / UpdateConfig / DeleteConfig /
// GetDatabaseConfigs with roll-back) executed against a harness metadata store.
//
// Nodes are bootstrapContexts sharing one store. A node that "dies at step k" performs k successful writes and no
// further storage operation (every later operation fails). While a node is between two storage operations another
// node may run complete operations (the stalled node then resumes): each stall is longer than the config retry
// timeout, which the harness sets to its minimum, so waiting never outlasts the stall.

var vhErrDead = errors.New("verif: node is dead")

type vhBootDoc struct {
	reg *GatewayRegistry
	cfg *DatabaseConfig
	cas uint64
}

type vhBootStore struct {
	docs   map[string]*vhBootDoc
	casCtr uint64
	writes int
}

func (s *vhBootStore) nextCas() uint64 {
	s.casCtr++
	return s.casCtr
}

type vhBootConn struct {
	base.BootstrapConnection
	st         *vhBootStore
	writesLeft int // -1 = never dies
	dead       bool
	stall      func() // runs at most once, before a symbolically chosen storage operation
	stalled    bool
	insertErr  bool // flavour of "insert of an existing key" error
	wrote      int  // successful writes of this node
}

func vhCopyRegistry(r *GatewayRegistry) *GatewayRegistry {
	c := *r
	c.cas = 0
	c.ConfigGroups = map[string]*RegistryConfigGroup{}
	for gn, g := range r.ConfigGroups {
		ng := &RegistryConfigGroup{Databases: map[string]*RegistryDatabase{}}
		for dn, d := range g.Databases {
			nd := *d
			if d.PreviousVersion != nil {
				pv := *d.PreviousVersion
				nd.PreviousVersion = &pv
			}
			ng.Databases[dn] = &nd
		}
		c.ConfigGroups[gn] = ng
	}
	return &c
}

func vhCopyConfig(c *DatabaseConfig) *DatabaseConfig {
	n := *c
	n.cfgCas = 0
	return &n
}

// before every storage operation of this node
func (c *vhBootConn) enter() error {
	if c.dead {
		return vhErrDead
	}
	if c.stall != nil && !c.stalled && vhPick() {
		c.stalled = true
		c.stall()
	}
	return nil
}

func (c *vhBootConn) enterWrite() error {
	if err := c.enter(); err != nil {
		return err
	}
	if c.writesLeft == 0 {
		c.dead = true
		return vhErrDead
	}
	if c.writesLeft > 0 {
		c.writesLeft--
	}
	c.wrote++ // (a write refused by the store below is still counted: only used to tell "did nothing" apart)
	return nil
}

func (c *vhBootConn) GetConfigBuckets(ctx context.Context) ([]string, error) {
	return []string{"b"}, nil
}

func (c *vhBootConn) GetMetadataDocument(ctx context.Context, bucket, key string, valuePtr any) (uint64, error) {
	if err := c.enter(); err != nil {
		return 0, err
	}
	d, ok := c.st.docs[key]
	if !ok {
		return 0, sgbucket.MissingError{Key: key}
	}
	switch t := valuePtr.(type) {
	case *GatewayRegistry:
		if d.reg == nil {
			vFail("harness store: registry read of a non-registry document")
		}
		*t = *vhCopyRegistry(d.reg)
	case *DatabaseConfig:
		if d.cfg == nil {
			vFail("harness store: config read of a non-config document")
		}
		*t = *vhCopyConfig(d.cfg)
	default:
		vFail("harness store: Get into unsupported target type")
	}
	return d.cas, nil
}

func (c *vhBootConn) put(key string, value any) *vhBootDoc {
	d := &vhBootDoc{cas: c.st.nextCas()}
	switch t := value.(type) {
	case *GatewayRegistry:
		d.reg = vhCopyRegistry(t)
	case *DatabaseConfig:
		d.cfg = vhCopyConfig(t)
	default:
		vFail("harness store: write of unsupported value type")
	}
	c.st.docs[key] = d
	c.st.writes++
	return d
}

func (c *vhBootConn) InsertMetadataDocument(ctx context.Context, bucket, key string, value any) (uint64, error) {
	if err := c.enterWrite(); err != nil {
		return 0, err
	}
	if _, ok := c.st.docs[key]; ok {
		if c.insertErr {
			return 0, base.ErrAlreadyExists
		}
		return 0, sgbucket.CasMismatchErr{Expected: 0, Actual: c.st.docs[key].cas}
	}
	return c.put(key, value).cas, nil
}

func (c *vhBootConn) WriteMetadataDocument(ctx context.Context, bucket, key string, cas uint64, value any) (uint64, error) {
	if err := c.enterWrite(); err != nil {
		return 0, err
	}
	d, ok := c.st.docs[key]
	if !ok {
		return 0, sgbucket.MissingError{Key: key}
	}
	if d.cas != cas {
		return 0, sgbucket.CasMismatchErr{Expected: cas, Actual: d.cas}
	}
	return c.put(key, value).cas, nil
}

func (c *vhBootConn) TouchMetadataDocument(ctx context.Context, bucket, key string, property string, value string, cas uint64) (uint64, error) {
	if err := c.enterWrite(); err != nil {
		return 0, err
	}
	d, ok := c.st.docs[key]
	if !ok {
		return 0, sgbucket.MissingError{Key: key}
	}
	if d.cas != cas {
		return 0, sgbucket.CasMismatchErr{Expected: cas, Actual: d.cas}
	}
	d.cas = c.st.nextCas()
	c.st.writes++
	return d.cas, nil
}

func (c *vhBootConn) DeleteMetadataDocument(ctx context.Context, bucket, key string, cas uint64) error {
	if err := c.enterWrite(); err != nil {
		return err
	}
	d, ok := c.st.docs[key]
	if !ok {
		return sgbucket.MissingError{Key: key}
	}
	if cas != 0 && d.cas != cas {
		return sgbucket.CasMismatchErr{Expected: cas, Actual: d.cas}
	}
	delete(c.st.docs, key)
	c.st.writes++
	return nil
}

func vhNewNode(st *vhBootStore, writesLeft int) (*bootstrapContext, *vhBootConn) {
	conn := &vhBootConn{st: st, writesLeft: writesLeft}
	return &bootstrapContext{Connection: conn, configRetryTimeout: 1, sgVersion: base.VhBuildVersion()}, conn
}

// ---- ground truth kept by the harness

const vhGroup = "g1"

var vhDbNames = [2]string{"db1", "db2"}

// a database state: absent, or a version with its collections
type vhDbState struct {
	present bool
	version string
	has     [3]bool
}

type vhEpisode struct {
	db       int
	kind     int // 0 insert, 1 update, 2 delete
	has      [3]bool
	result   vhDbState
	err      error
	died     bool
	rejected bool // completed with an error without dying
}

type vhWorld struct {
	st       *vhBootStore
	init     [2]vhDbState
	episodes []*vhEpisode
	digests  []string
	versions map[string][3]bool // every version ever proposed -> its collections
}

func (w *vhWorld) newVersion(gen int, has [3]bool) string {
	// the digest of each proposed version is an arbitrary letter, distinct from the digests proposed so far
	d := vNondetString(1)
	vAssume(d[0] >= 'a' && d[0] <= 'z')
	for _, o := range w.digests {
		vAssume(o != d)
	}
	w.digests = append(w.digests, d)
	v := vhGen(gen) + "-" + d
	w.versions[v] = has
	return v
}

func vhGen(g int) string {
	switch g {
	case 1:
		return "1"
	case 2:
		return "2"
	case 3:
		return "3"
	case 4:
		return "4"
	}
	return "5"
}

func vhGenOf(v string) int {
	return int(v[0] - '0')
}

func vhPickColls() [3]bool {
	// a database uses one named collection or the default collection (quick); the other named collection or both named
	// ones in addition (thorough)
	switch vNondetRange(0, vParam("collchoices", 2)-1) {
	case 0:
		return [3]bool{false, true, false}
	case 1:
		return [3]bool{true, false, false} // the default collection only
	case 2:
		return [3]bool{false, false, true}
	}
	return [3]bool{false, true, true}
}

func vhNewConfig(name, version string, has [3]bool) *DatabaseConfig {
	cfg := &DatabaseConfig{Version: version, MetadataID: "m_" + name}
	cfg.Name = name
	cfg.Scopes = vhScopesConfig(has)
	return cfg
}

func vhConfigColls(cfg *DatabaseConfig) (has [3]bool) {
	if len(cfg.Scopes) == 0 {
		has[0] = true
		return
	}
	for i, c := range vhColls {
		if sc, ok := cfg.Scopes[c.scope]; ok {
			if _, ok := sc.Collections[c.coll]; ok {
				has[i] = true
			}
		}
	}
	return
}

// vhSeed writes a consistent (registry + config document) initial state.
func (w *vhWorld) seed() {
	b, _ := vhNewNode(w.st, -1)
	ctx := context.Background()
	reg := NewGatewayRegistry(b.sgVersion)
	seeded := false
	for i, n := range vhDbNames {
		if w.init[i].present {
			cfg := vhNewConfig(n, w.init[i].version, w.init[i].has)
			_, err := reg.upsertDatabaseConfig(ctx, vhGroup, cfg)
			vAssume(err == nil)
			w.st.docs[PersistentConfigKey(ctx, vhGroup, n)] = &vhBootDoc{cfg: vhCopyConfig(cfg), cas: w.st.nextCas()}
			seeded = true
		}
	}
	if seeded || vhPick() {
		w.st.docs[base.SGRegistryKey] = &vhBootDoc{reg: vhCopyRegistry(reg), cas: w.st.nextCas()}
	}
}

// run one change on a node; stall (if not nil) may nest another node's activity between two of its storage operations.
func (w *vhWorld) episode(crash bool, stall func()) *vhEpisode {
	ctx := context.Background()
	ep := &vhEpisode{db: vNondetRange(0, vParam("dbs", 2)-1), kind: vNondetRange(0, 2)}
	writesLeft := -1
	if crash {
		writesLeft = vNondetRange(-1, vParam("maxcrash", 3))
	}
	b, conn := vhNewNode(w.st, writesLeft)
	conn.stall = stall
	conn.insertErr = vhPick()
	name := vhDbNames[ep.db]
	w.episodes = append(w.episodes, ep)
	switch ep.kind {
	case 0:
		has := vhPickColls()
		ep.has = has
		v := w.newVersion(1, has)
		ep.result = vhDbState{true, v, has}
		_, ep.err = b.InsertConfig(ctx, "b", vhGroup, vhNewConfig(name, v, has))
	case 1:
		has := vhPickColls()
		ep.has = has
		var v string
		_, ep.err = b.UpdateConfig(ctx, "b", vhGroup, name, func(cur *DatabaseConfig) (*DatabaseConfig, error) {
			n := *cur
			if v == "" {
				v = w.newVersion(vhGenOf(cur.Version)+1, has)
			} else {
				// a retried update is re-based on the version it finds
				v = vhGen(vhGenOf(cur.Version)+1) + v[1:]
				w.versions[v] = has
			}
			n.Version = v
			n.Scopes = vhScopesConfig(has)
			return &n, nil
		})
		ep.result = vhDbState{true, v, has}
		if v == "" {
			ep.result = vhDbState{}
		}
	case 2:
		ep.err = b.DeleteConfig(ctx, "b", vhGroup, name)
		ep.result = vhDbState{}
	}
	ep.died = conn.dead
	// cleanly rejected: reported as failed without having attempted any write. (A change that fails after some of its
	// steps were applied - e.g. because another node completed or rolled back its work during a long stall - is in doubt.)
	ep.rejected = ep.err != nil && !conn.dead && conn.wrote == 0
	return ep
}

// observe: a fresh, healthy node loads the configurations of the group; returns the per-database view.
func (w *vhWorld) observe(tag string) (view [2]vhDbState) {
	ctx := context.Background()
	b, _ := vhNewNode(w.st, -1)
	vMapOrder(1)
	cfgs, err := b.GetDatabaseConfigs(ctx, "b", vhGroup)
	vMapOrder(0)
	vAssert(err == nil, tag+": a healthy node can load the configurations after interrupted changes")
	if err != nil {
		return
	}
	reg, rerr := b.getGatewayRegistry(ctx, "b")
	vAssert(rerr == nil, tag+": registry readable")
	var owner [3]string
	for _, cfg := range cfgs {
		i := -1
		for k, n := range vhDbNames {
			if cfg.Name == n {
				i = k
			}
		}
		vAssert(i >= 0, tag+": only known databases are loaded")
		if i < 0 {
			continue
		}
		vAssert(!view[i].present, tag+": a database is loaded once")
		has := vhConfigColls(cfg)
		view[i] = vhDbState{true, cfg.Version, has}
		// the loaded config carries exactly the version the registry records, with that version's collections
		rd, ok := reg.getRegistryDatabase(vhGroup, cfg.Name)
		vAssert(ok && rd.Version == cfg.Version, tag+": a loaded config carries exactly the version the registry records")
		o, _, _, _ := vhCurrentOwned(reg, vhGroup, cfg.Name)
		vAssert(o == vhOwned(has), tag+": registry and loaded config agree on the collections of the database")
		want, known := w.versions[cfg.Version]
		vAssert(known && want == has, tag+": a loaded config is a complete proposed configuration, not a mixture")
		for k := 0; k < 3; k++ {
			if vhOwned(has)[k] {
				vAssert(owner[k] == "", tag+": no two loaded databases own the same collection")
				owner[k] = cfg.Name
			}
		}
	}
	vhCheckDisjoint(reg, tag)
	// every live registry entry of the group was loaded
	if g, ok := reg.ConfigGroups[vhGroup]; ok {
		for i, n := range vhDbNames {
			if rd, ok := g.Databases[n]; ok && !rd.IsDeleted() {
				vAssert(view[i].present, tag+": every database the registry lists is loaded")
			}
		}
	}
	return view
}

func (w *vhWorld) initState() {
	w.st = &vhBootStore{docs: map[string]*vhBootDoc{}, casCtr: 100}
	w.versions = map[string][3]bool{}
	for i := 0; i < vParam("dbs", 2); i++ {
		if vhPick() {
			has := vhPickColls()
			w.init[i] = vhDbState{true, w.newVersion(1, has), has}
		}
	}
	if w.init[0].present && w.init[1].present {
		for k := 0; k < 3; k++ {
			vAssume(!(w.init[0].has[k] && w.init[1].has[k]))
		}
	}
	w.seed()
}

// candidates: a database ends up absent/initial or as the result of some change that was not cleanly rejected
func (w *vhWorld) checkCandidates(view [2]vhDbState, tag string) {
	for i := range vhDbNames {
		ok := view[i] == w.init[i]
		for _, ep := range w.episodes {
			if ep.db == i && !ep.rejected && view[i] == ep.result {
				ok = true
			}
		}
		vAssert(ok, tag+": each database is in its previous state or in the state of a change that was not rejected")
	}
}

// expected outcome of a fault-free change applied to a recovered world
func vhApplyExpect(view [2]vhDbState, ep *vhEpisode) (want vhDbState, accept bool) {
	cur := view[ep.db]
	other := view[1-ep.db]
	conflict := false
	if ep.kind != 2 && other.present {
		for k := 0; k < 3; k++ {
			if vhOwned(other.has)[k] && vhOwned(ep.has)[k] {
				conflict = true
			}
		}
	}
	switch ep.kind {
	case 0:
		if cur.present || conflict {
			return cur, false
		}
		return ep.result, true
	case 1:
		if !cur.present || conflict {
			return cur, false
		}
		return vhDbState{true, vhGen(vhGenOf(cur.version)+1) + ep.result.version[1:], ep.has}, true
	}
	if !cur.present {
		return cur, false
	}
	return vhDbState{}, true
}

// VHarness_C15_CrashRecovery: initial consistent state; one change interrupted at an arbitrary storage step (or not);
// recovery by a healthy node; then a further fault-free change on the same or the other database; final load.
func VHarness_C15_CrashRecovery() {
	w := &vhWorld{}
	w.initState()
	ep := w.episode(true, nil)
	if ep.died {
		vCover("crashed-change")
	}
	view := w.observe("after an interrupted change")
	w.checkCandidates(view, "after an interrupted change")
	if !ep.died {
		want, accept := vhApplyExpect(w.init, ep)
		if ep.err == nil {
			vAssert(accept, "a change that collides with another database or the database's existence is refused")
			vAssert(view[ep.db] == want, "an acknowledged change is what every node loads")
		} else {
			vAssert(!accept, "a valid change on a consistent bucket is accepted")
			vAssert(view == w.init, "a rejected change leaves everything as it was")
		}
	}
	// second load gives the same answer (recovery is stable)
	view2 := w.observe("second load")
	vAssert(view2 == view, "loading again after recovery gives the same configurations")
	// a further change on a recovered bucket behaves as on a consistent one
	ep2 := w.episode(false, nil)
	want, accept := vhApplyExpect(view, ep2)
	if accept {
		vCover("change-after-recovery")
		vAssert(ep2.err == nil, "after an interrupted change, databases can still be created, updated and deleted")
	} else {
		vAssert(ep2.err != nil, "after recovery an invalid change is still refused")
	}
	view3 := w.observe("after the follow-up change")
	if ep2.err == nil {
		vAssert(view3[ep2.db] == want, "the acknowledged follow-up change is what every node loads")
		vAssert(view3[1-ep2.db] == view[1-ep2.db], "the follow-up change leaves the other database alone")
	} else {
		vAssert(view3 == view, "the rejected follow-up change leaves everything as it was")
	}
}

// VHarness_C15_Race: node A's change is stalled between two of its storage operations (longer than the config retry
// timeout) while node B loads configurations and/or makes its own change (possibly dying part-way); A then resumes
// (or is dead). Afterwards a healthy node must be able to load a consistent view and to change databases.
func VHarness_C15_Race() {
	w := &vhWorld{}
	w.initState()
	nested := false
	epA := w.episode(vParam("crashA", 1) == 1, func() {
		nested = true
		if vhPick() {
			w.observe("during a stalled change")
		}
		if vhPick() {
			w.episode(vParam("crashB", 1) == 1, nil)
		}
	})
	_ = epA
	if nested {
		vCover("raced-change")
	}
	view := w.observe("after racing changes")
	w.checkCandidates(view, "after racing changes")
	view2 := w.observe("second load after racing changes")
	vAssert(view2 == view, "loading again after racing changes gives the same configurations")
	ep2 := w.episode(false, nil)
	want, accept := vhApplyExpect(view, ep2)
	if accept {
		vAssert(ep2.err == nil, "after racing and interrupted changes, databases can still be created, updated and deleted")
	} else {
		vAssert(ep2.err != nil, "after racing changes an invalid change is still refused")
	}
	view3 := w.observe("after the follow-up change")
	if ep2.err == nil {
		vAssert(view3[ep2.db] == want, "the acknowledged follow-up change is what every node loads")
	} else {
		vAssert(view3 == view, "the rejected follow-up change leaves everything as it was")
	}
}
