//go:build verif

package rest

import (
	"context"

	"github.com/couchbase/sync_gateway/base"
)

// C15 — the database registry never lets two databases own the same collection, an update either takes effect
// completely or leaves the registry untouched, and an interrupted update can be rolled back exactly.

type vhColl struct{ scope, coll string }

var vhColls = [3]vhColl{{base.DefaultScope, base.DefaultCollection}, {"s1", "c1"}, {"s1", "c2"}}

type vhDbSpec struct {
	name, group string
	version     string
	metaID      string
	has         [3]bool // owned collections (none = default only)
	prev        *[3]bool
	prevVersion string
}

func vhOwned(has [3]bool) [3]bool {
	if !has[0] && !has[1] && !has[2] {
		return [3]bool{true, false, false}
	}
	return has
}

func vhRegistryScopes(has [3]bool) RegistryScopes {
	if !has[0] && !has[1] && !has[2] {
		return nil // stored as "default only"
	}
	rs := RegistryScopes{}
	for i, c := range vhColls {
		if has[i] {
			sc := rs[c.scope]
			sc.Collections = append(sc.Collections, c.coll)
			rs[c.scope] = sc
		}
	}
	return rs
}

func vhScopesConfig(has [3]bool) ScopesConfig {
	if !has[0] && !has[1] && !has[2] {
		return nil
	}
	sc := ScopesConfig{}
	for i, c := range vhColls {
		if has[i] {
			s, ok := sc[c.scope]
			if !ok {
				s = ScopeConfig{Collections: CollectionsConfig{}}
			}
			s.Collections[c.coll] = &CollectionConfig{}
			sc[c.scope] = s
		}
	}
	return sc
}

// vhPick: an unconstrained structural choice (explored exhaustively, no solver involvement).
func vhPick() bool { return vNondetRange(0, 1) == 1 }

func vhNondetSubset() [3]bool {
	return [3]bool{vhPick(), vhPick(), vhPick()}
}

// vhBuildRegistry: two databases in one or two config groups, current versions pairwise disjoint (the invariant),
// each optionally with an in-flight previous version.
func vhBuildRegistry() (*GatewayRegistry, []vhDbSpec) {
	r := &GatewayRegistry{ConfigGroups: map[string]*RegistryConfigGroup{}, Version: GatewayRegistryVersion}
	// versions and metadata ids are arbitrary (symbolic) strings; live versions are not the reserved markers
	specs := []vhDbSpec{{name: "db1", group: "g1", version: "1-" + vNondetString(1), metaID: "m" + vNondetString(1)},
		{name: "db2", group: "g1", version: "1-" + vNondetString(1), metaID: "m" + vNondetString(1)}}
	vAssume(specs[0].metaID != specs[1].metaID)
	if vhPick() {
		specs[1].group = "g2"
	}
	ndb := vNondetRange(1, 2)
	specs = specs[:ndb]
	for i := range specs {
		specs[i].has = vhNondetSubset()
		if i == len(specs)-1 && vhPick() {
			p := vhNondetSubset()
			specs[i].prev = &p
			specs[i].prevVersion = "3-" + vNondetString(1)
		}
	}
	if ndb == 2 {
		a, b := vhOwned(specs[0].has), vhOwned(specs[1].has)
		for k := 0; k < 3; k++ {
			vAssume(!(a[k] && b[k])) // invariant: no collection owned by two databases
		}
	}
	for _, s := range specs {
		g, ok := r.ConfigGroups[s.group]
		if !ok {
			g = NewRegistryConfigGroup()
			r.ConfigGroups[s.group] = g
		}
		rd := &RegistryDatabase{MetadataID: s.metaID}
		rd.Version = s.version
		rd.Scopes = vhRegistryScopes(s.has)
		if s.prev != nil {
			rd.PreviousVersion = &RegistryDatabaseVersion{Version: s.prevVersion, Scopes: vhRegistryScopes(*s.prev)}
		}
		g.Databases[s.name] = rd
	}
	return r, specs
}

func vhCurrentOwned(r *GatewayRegistry, group, name string) (owned [3]bool, version string, hasPrev bool, ok bool) {
	g, okg := r.ConfigGroups[group]
	if !okg {
		return
	}
	d, okd := g.Databases[name]
	if !okd {
		return
	}
	ok = true
	version = d.Version
	hasPrev = d.PreviousVersion != nil
	if d.IsDeleted() {
		return
	}
	scopes := d.Scopes
	if len(scopes) == 0 {
		owned[0] = true
		return
	}
	for i, c := range vhColls {
		for _, n := range scopes[c.scope].Collections {
			if n == c.coll {
				owned[i] = true
			}
		}
	}
	return
}

func vhCheckDisjoint(r *GatewayRegistry, tag string) {
	var owner [3]string
	for _, g := range []string{"g1", "g2"} {
		for _, n := range []string{"db1", "db2", "db3"} {
			owned, _, _, ok := vhCurrentOwned(r, g, n)
			if !ok {
				continue
			}
			for k := 0; k < 3; k++ {
				if owned[k] {
					vAssert(owner[k] == "" || owner[k] == n, tag+": no collection is owned by two different databases")
					owner[k] = n
				}
			}
		}
	}
}

// VHarness_C15_Upsert: one upsertDatabaseConfig from an arbitrary valid registry.
func VHarness_C15_Upsert() {
	ctx := context.Background()
	r, specs := vhBuildRegistry()
	newName := "db3"
	newGroup := "g1"
	if vhPick() {
		newName = "db1" // update of an existing database
	}
	if vhPick() {
		newGroup = "g2"
	}
	want := vhNondetSubset()
	newVersion := "2-" + vNondetString(1)
	cfg := &DatabaseConfig{Version: newVersion, MetadataID: "m" + vNondetString(1)}
	cfg.Name = newName
	cfg.Scopes = vhScopesConfig(want)
	// snapshot
	type snap struct {
		owned   [3]bool
		version string
		hasPrev bool
		ok      bool
	}
	before := map[string]snap{}
	for _, g := range []string{"g1", "g2"} {
		for _, n := range []string{"db1", "db2", "db3"} {
			o, v, p, ok := vhCurrentOwned(r, g, n)
			before[g+"/"+n] = snap{o, v, p, ok}
		}
	}
	vMapOrder(1)
	prevConflicts, err := r.upsertDatabaseConfig(ctx, newGroup, cfg)
	vMapOrder(0)
	// specification of conflicts
	wantOwned := vhOwned(want)
	activeConflict := false
	previousConflict := false
	metaConflict := false
	for _, s := range specs {
		if s.name == newName {
			continue
		}
		if s.metaID == cfg.MetadataID {
			metaConflict = true
		}
		o := vhOwned(s.has)
		for k := 0; k < 3; k++ {
			if o[k] && wantOwned[k] {
				activeConflict = true
			}
		}
		if s.prev != nil {
			po := vhOwned(*s.prev)
			for k := 0; k < 3; k++ {
				if po[k] && wantOwned[k] {
					previousConflict = true
				}
			}
		}
	}
	if err == nil {
		vCover("upsert-accepted")
		vAssert(!activeConflict && !previousConflict, "an update that collides with another database's current or in-flight collections is refused")
		vAssert(!metaConflict, "an update that reuses another database's metadata id is refused")
		o, v, _, ok := vhCurrentOwned(r, newGroup, newName)
		vAssert(ok && v == newVersion && o == wantOwned, "an accepted update is recorded completely (version and collections)")
		vAssert(r.ConfigGroups[newGroup].Databases[newName].MetadataID == cfg.MetadataID, "an accepted update records the metadata id")
		vhCheckDisjoint(r, "after upsert")
		if b := before[newGroup+"/"+newName]; b.ok {
			d := r.ConfigGroups[newGroup].Databases[newName]
			vAssert(d.PreviousVersion != nil && d.PreviousVersion.Version == b.version, "the replaced version is kept as previous version for rollback")
		}
	} else {
		vCover("upsert-refused")
		vAssert(activeConflict || previousConflict || metaConflict, "an update without any conflict is accepted")
		if !activeConflict && !metaConflict {
			vAssert(len(prevConflicts) > 0, "a conflict with an in-flight update is reported as such so that the caller can wait")
		}
		for _, g := range []string{"g1", "g2"} {
			for _, n := range []string{"db1", "db2", "db3"} {
				o, v, p, ok := vhCurrentOwned(r, g, n)
				vAssert(before[g+"/"+n] == snap{o, v, p, ok}, "a refused update leaves the registry unchanged")
			}
		}
	}
}

// VHarness_C15_RollbackDeleteRemove: rollback restores exactly the previous version; delete leaves a marker that owns
// nothing; remove drops the entry (and an emptied group).
func VHarness_C15_RollbackDeleteRemove() {
	ctx := context.Background()
	r, specs := vhBuildRegistry()
	s := specs[0]
	switch vNondetRange(0, 2) {
	case 0:
		cfgVersion := "4-" + vNondetString(1)
		cfg := &DatabaseConfig{Version: cfgVersion, MetadataID: s.metaID}
		cfg.Name = s.name
		cfgHas := vhNondetSubset()
		cfg.Scopes = vhScopesConfig(cfgHas)
		err := r.rollbackDatabaseConfig(ctx, s.group, s.name, cfg)
		vAssert(err == nil, "rollback of a registered database succeeds")
		o, v, hasPrev, ok := vhCurrentOwned(r, s.group, s.name)
		vAssert(ok && !hasPrev, "after rollback no in-flight version remains")
		if s.prev != nil {
			vCover("rollback-to-previous")
			vAssert(v == s.prevVersion && o == vhOwned(*s.prev), "rollback restores exactly the previous version and its collections")
		} else {
			// no previous version recorded: the config document is taken as the previous version; if that would collide it is marked invalid
			collide := false
			if len(specs) == 2 {
				other := vhOwned(specs[1].has)
				mine := vhOwned(cfgHas)
				for k := 0; k < 3; k++ {
					if other[k] && mine[k] {
						collide = true
					}
				}
			}
			if collide {
				vAssert(r.ConfigGroups[s.group].Databases[s.name].IsInvalid(), "a rollback that would create a collection conflict marks the database invalid")
			} else {
				vAssert(v == cfgVersion && o == vhOwned(cfgHas), "rollback without a recorded previous version adopts the config document")
				vhCheckDisjoint(r, "after rollback")
			}
		}
	case 1:
		err := r.deleteDatabase(s.group, s.name)
		vAssert(err == nil, "delete of a registered database succeeds")
		d := r.ConfigGroups[s.group].Databases[s.name]
		vAssert(d.IsDeleted() && d.PreviousVersion != nil && d.PreviousVersion.Version == s.version, "delete leaves a marker remembering the deleted version")
		o, _, _, _ := vhCurrentOwned(r, s.group, s.name)
		vAssert(o == [3]bool{}, "a database being deleted owns no collections")
		vhCheckDisjoint(r, "after delete")
	case 2:
		ok := r.removeDatabase(s.group, s.name)
		vAssert(ok, "remove of a registered database succeeds")
		_, _, _, still := vhCurrentOwned(r, s.group, s.name)
		vAssert(!still, "a removed database is gone from the registry")
		if g, ok := r.ConfigGroups[s.group]; ok {
			vAssert(len(g.Databases) > 0, "an emptied config group is removed")
		}
		vhCheckDisjoint(r, "after remove")
	}
}
