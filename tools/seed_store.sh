#!/bin/bash
# tools/seed_store.sh <out-dir> <seed-name> <property-id> : copy an agent's deliverables to seeded/<seed-name>, confirm, check
set -u
out=$1; name=$2; pid=$3
d=/verif/seeded/$name
mkdir -p $d
cp $out/patch.diff $out/demo_path.txt $out/meta.json $d/
cp $out/$(basename $(cat $out/demo_path.txt)) $d/
/verif/tools/seed_confirm.sh $d 2>&1 | tail -2
SEED_SCRATCH=1 /verif/tools/seed_check.sh $d/patch.diff $pid quick
