#!/bin/bash
# tools/seed_check.sh <patch.diff> <property-id> [tier]: apply a seeded change to /repo, run the check, undo.
# With SEED_SCRATCH=1 the change is applied to a scratch worktree (/tmp/mutrepo at /repo's HEAD) instead and the check
# is pointed at it (VERIF_REPO); used while a long run is reading /repo. No evidence is written in that mode.
set -u
patch=$1; pid=$2; tier=${3:-quick}
if [ "${SEED_SCRATCH:-0}" = "1" ]; then
  wt=/tmp/mutrepo
  head=$(git -C /repo rev-parse HEAD)
  if [ -d $wt ]; then git -C $wt checkout -q --detach $head; git -C $wt checkout -q -- .; else git -C /repo worktree add -q --detach $wt $head || exit 3; fi
  git -C $wt apply "$patch" || { echo "patch does not apply"; exit 3; }
  ( cd /verif && VERIF_REPO=$wt ./check "$pid" "$tier" > /tmp/seedchk_$pid.log 2>&1; echo "rc=$?"; grep -E "^VIOLATION|^KNOWN" /tmp/seedchk_$pid.log | cut -c1-260 | head -5 )
  git -C $wt checkout -q -- .
  exit 0
fi
cd /repo || exit 3
if ! git diff --quiet; then echo "/repo is dirty"; exit 3; fi
git apply "$patch" || { echo "patch does not apply"; exit 3; }
( cd /verif && VERIF_NO_EVIDENCE=1 ./check "$pid" "$tier" > /tmp/seedchk_$pid.log 2>&1; echo "rc=$?"; grep -E "^VIOLATION|^KNOWN" /tmp/seedchk_$pid.log | cut -c1-260 | head -5 )
git -C /repo checkout -- .
