#!/bin/bash
# tools/seed_check.sh <patch.diff> <property-id> [tier]: apply a seeded change to /repo, run the check, undo.
set -u
patch=$1; pid=$2; tier=${3:-quick}
cd /repo || exit 3
if ! git diff --quiet; then echo "/repo is dirty"; exit 3; fi
git apply "$patch" || { echo "patch does not apply"; exit 3; }
( cd /verif && ./check "$pid" "$tier" > /tmp/seedchk_$pid.log 2>&1; echo "rc=$?"; grep -E "^VIOLATION|^KNOWN" /tmp/seedchk_$pid.log | cut -c1-260 | head -5 )
git -C /repo checkout -- .
