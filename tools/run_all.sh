#!/bin/bash
# tools/run_all.sh quick|thorough : run every registered check, print rc and wall time
tier=${1:-quick}
cd "$(dirname "$0")/.."
for p in $(python3 -c "
import json;print(' '.join(c['property_id'] for c in json.load(open('MANIFEST.json'))['checks']))"); do
  s=$(date +%s); ./check $p $tier > /tmp/runall_${p}_$tier.log 2>&1; rc=$?; e=$(date +%s)
  echo "$p $tier rc=$rc $((e-s))s"
  grep -E "^VIOLATION|^INCONCLUSIVE" /tmp/runall_${p}_$tier.log | head -3 | cut -c1-300
done
