#!/bin/bash
# tools/seed_prepare.sh <property-id> <tag> : scratch worktree /tmp/seed_<id><tag> at /repo's HEAD + out dir with the property text
set -u
pid=$1; tag=$2
wt=/tmp/seed_${pid}${tag}; out=${wt}_out
git -C /repo worktree add -q --detach $wt HEAD || exit 3
mkdir -p $out
python3 - "$pid" "$out" <<'PY'
import json,sys
for l in open('/verif/properties.jsonl'):
    p=json.loads(l)
    if p['id']==sys.argv[1]:
        open(sys.argv[2]+'/property.txt','w').write("%s - %s\n\nStatement: %s\n\nQuantified over: %s\n" % (p['id'],p['title'],p['statement'],(p.get('quantifier') or {}).get('text','')))
PY
sed "s#/tmp/seed_C01#$wt#g; s#\"property\":\"C01\"#\"property\":\"$pid\"#" /verif/tools/seedkit/prompt_template.txt > $out/prompt.txt
echo $wt
