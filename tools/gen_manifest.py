#!/usr/bin/env python3
"""Regenerates /verif/MANIFEST.json from checks/*.json (claimed properties) and checks/not_applicable.json."""
import json, os, glob
ROOT = os.path.dirname(os.path.dirname(os.path.abspath(__file__)))
props = [json.loads(l) for l in open(os.path.join(ROOT, "properties.jsonl"))]
na = json.load(open(os.path.join(ROOT, "checks", "not_applicable.json")))
checks = []
claimed = set()
for p in props:
    pid = p["id"]
    cp = os.path.join(ROOT, "checks", pid + ".json")
    if not os.path.exists(cp):
        continue
    c = json.load(open(cp))
    if not c.get("registered"):
        continue
    claimed.add(pid)
    checks.append({
        "property_id": pid,
        "quick_cmd": "./check %s quick" % pid,
        "thorough_cmd": "./check %s thorough" % pid,
        "evidence_file": "/verif/evidence/%s.json" % pid,
        "replay_cmd_template": "./check %s --replay {path}" % pid,
        "engine": "gosym",
        "level_claimed": {"category": c.get("level", "model_checking"), "text": c["level_text"], "design_ref": c.get("design_ref", "DESIGN.md §3 " + pid)},
        "level_note": c["level_note"],
        "technique": c.get("technique", "bounded symbolic execution of the real Go SSA + SMT (z3/cvc5), native replay of counterexamples"),
    })
m = {
    "version": 1,
    "setup_cmd": "cd /verif/engine && GOFLAGS=-mod=mod GOPROXY=off GOTOOLCHAIN=local go1.26.8 build -o ../bin/gosym . && cd /repo && GOFLAGS=-mod=mod GOPROXY=off go build ./db ./auth ./base ./channels ./rest",
    "hooks": {"guard": "verif", "enable": "harnesses are go/packages overlays (zz_verif_*.go, //go:build verif) injected at load time and with `go build -tags verif -overlay` for native replay; nothing is committed to /repo",
              "baseline_off_cmd": "cd /repo && GOFLAGS=-mod=mod go test -vet=off -count=1 -timeout 25m ./...",
              "source_commits": [], "add_only": True},
    "engines": [{"name": "gosym", "path": "/verif/engine", "serves_properties": sorted(claimed),
                 "kind_free_text": "own SSA (golang.org/x/tools/go/ssa) -> SMT-LIB2 bounded symbolic executor: forking interpreter over the real functions, bit-vector terms, one incremental z3 per worker with one-shot cvc5 (bv-as-int) / z3 / z3-new fallback, counterexamples replayed against the natively compiled code"}],
    "checks": checks,
    "not_applicable": [{"property_id": p["id"], "reason": na.get(p["id"], "check not built yet (see DESIGN.md)")} for p in props if p["id"] not in claimed],
    "notes": "All claims are bounded: see each evidence file's coverage.bounds / outside_claim and DESIGN.md.",
}
json.dump(m, open(os.path.join(ROOT, "MANIFEST.json"), "w"), indent=1)
print("claimed:", sorted(claimed))
