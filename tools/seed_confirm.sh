#!/bin/bash
# tools/seed_confirm.sh <seed-dir> : confirm a seeded change in a scratch worktree: builds, demo fails with it, passes without it.
set -u
d=$1; name=$(basename $d)
wt=/tmp/sv_$name
git -C /repo worktree add -q --detach $wt HEAD || exit 3
trap "git -C /repo worktree remove --force $wt" EXIT
cd $wt
export GOFLAGS=-mod=mod GOPROXY=off
git apply $d/patch.diff || { echo "APPLY-FAILED"; exit 3; }
demo=$(cat $d/demo_path.txt)
cp $d/$(basename $demo) $wt/$demo
pkg=./$(dirname $demo)
go build ./... || { echo "BUILD-FAILED"; exit 3; }
runre=$(grep -o "func Test[A-Za-z0-9_]*" $wt/$demo | sed 's/func //' | paste -sd'|')
go test -vet=off -count=1 -run "^($runre)\$" $pkg > /tmp/sv_${name}_with.log 2>&1; with=$?
git apply -R $d/patch.diff
go test -vet=off -count=1 -run "^($runre)\$" $pkg > /tmp/sv_${name}_without.log 2>&1; without=$?
echo "$name: demo with change rc=$with (expect !=0), without change rc=$without (expect 0)"
