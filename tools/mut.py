#!/usr/bin/env python3
"""tools/mut.py <pid> <repo-relative-file> <old> <new> [harness-substring]:
apply a textual mutation to a scratch worktree of /repo (/tmp/mutrepo, created on demand at /repo's HEAD plus its
uncommitted changes are NOT included), run the quick check against it (no evidence written), revert."""
import os, subprocess, sys
pid, f, old, new = sys.argv[1:5]
only = sys.argv[5] if len(sys.argv) > 5 else None
WT = "/tmp/mutrepo"
head = subprocess.run(["git", "-C", "/repo", "rev-parse", "HEAD"], capture_output=True, text=True).stdout.strip()
if os.path.isdir(WT):
    cur = subprocess.run(["git", "-C", WT, "rev-parse", "HEAD"], capture_output=True, text=True).stdout.strip()
    if cur != head:
        subprocess.run(["git", "-C", WT, "checkout", "-q", "--detach", head])
else:
    subprocess.run(["git", "-C", "/repo", "worktree", "add", "-q", "--detach", WT, head], check=True)
subprocess.run(["git", "-C", WT, "checkout", "-q", "--", "."])
p = os.path.join(WT, f)
s = open(p).read()
if old not in s:
    print("MUTATION TARGET NOT FOUND"); sys.exit(3)
open(p, "w").write(s.replace(old, new, 1))
env = dict(os.environ, GOFLAGS="-mod=mod", GOPROXY="off", VERIF_REPO=WT)
if only:
    env["VERIF_ONLY"] = only
try:
    b = subprocess.run(["go", "build", "./" + f.rsplit("/", 1)[0]], cwd=WT, capture_output=True, text=True, env=env)
    if b.returncode != 0:
        print("MUTANT DOES NOT COMPILE:", b.stderr[:300]); sys.exit(4)
    r = subprocess.run(["./check", pid, "quick"], cwd="/verif", capture_output=True, text=True, env=env)
    v = [l for l in r.stdout.splitlines() if l.startswith("VIOLATION")]
    print("rc=%d violations=%d" % (r.returncode, len(v)))
    for l in v[:3]:
        print("  ", l[:220])
    if r.returncode not in (0, 1):
        print(r.stderr[-1500:])
finally:
    subprocess.run(["git", "-C", WT, "checkout", "-q", "--", "."])
