#!/usr/bin/env python3
"""tools/mut.py <pid> <repo-relative-file> <old> <new> : apply a textual mutation to /repo, run the quick check, revert."""
import subprocess, sys
pid, f, old, new = sys.argv[1:5]
p = "/repo/" + f
s = open(p).read()
if old not in s:
    print("MUTATION TARGET NOT FOUND"); sys.exit(3)
open(p, "w").write(s.replace(old, new, 1))
try:
    b = subprocess.run(["go", "build", "./" + f.rsplit("/", 1)[0]], cwd="/repo", capture_output=True, text=True,
                       env=dict(__import__("os").environ, GOFLAGS="-mod=mod", GOPROXY="off"))
    if b.returncode != 0:
        print("MUTANT DOES NOT COMPILE:", b.stderr[:300]); sys.exit(4)
    r = subprocess.run(["./check", pid, "quick"], cwd="/verif", capture_output=True, text=True)
    v = [l for l in r.stdout.splitlines() if l.startswith("VIOLATION")]
    print("rc=%d violations=%d" % (r.returncode, len(v)))
    for l in v[:3]:
        print("  ", l[:220])
    if r.returncode not in (0, 1):
        print(r.stderr[-1500:])
finally:
    subprocess.run(["git", "checkout", "--", f], cwd="/repo")
