#!/usr/bin/env python3
"""tools/seed_meta.py <seed-name> <detected|missed> <detail> : record a check outcome in seeded/<seed>/meta.json"""
import json, sys, os
d = os.path.join(os.path.dirname(os.path.abspath(__file__)), "..", "seeded", sys.argv[1], "meta.json")
m = json.load(open(d))
m.setdefault("origin", "independent sub-agent given only the property text and a scratch worktree")
m.setdefault("confirmed", "tools/seed_confirm.sh: applies in a scratch worktree, go build ./... ok, demo test fails with the change and passes without it")
m["check_result"] = sys.argv[2]
m["check_detail"] = sys.argv[3]
json.dump(m, open(d, "w"), indent=1)
